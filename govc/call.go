package main

import (
	"os"
	"fmt"
	"go/ast"
	"go/parser"
	"go/token"
	"go/types"
	"strings"

	"golang.org/x/tools/go/ssa"
)

func parseExpr(s, where string) ast.Expr {
	e, err := parser.ParseExpr(strings.TrimSpace(s))
	if err != nil {
		specErr("%s: cannot parse %q: %v", where, s, err)
	}
	return e
}

func (x *Exec) doCall(fr *Frame, call *ssa.CallCommon, site ssa.Value, pos token.Pos) Val {
	if pos.IsValid() {
		x.curPos = pos
	}
	var args []Val
	for _, a := range call.Args {
		args = append(args, x.get(fr, a))
	}
	if call.IsInvoke() {
		iv, ok := x.get(fr, call.Value).(*IfaceV)
		if !ok {
			unsupported("invoke on %T", x.get(fr, call.Value))
		}
		if iv.Known != nil {
			if m := x.eng.prog.LookupMethod(iv.Known.Type(), call.Method.Pkg(), call.Method.Name()); m != nil {
				return x.callStatic(m, append([]Val{iv.Known}, args...), nil)
			}
		}
		x.safety("nil-deref", "invoke/"+call.Method.Name(), not(eq(iv.Tag, tZero)), "interface receiver != nil")
		return x.callIface(iv, call, args)
	}
	switch v := call.Value.(type) {
	case *ssa.Builtin:
		return x.builtin(fr, v, call, args, site)
	case *ssa.Function:
		return x.callStatic(v, args, nil)
	case *ssa.MakeClosure:
		fv := x.get(fr, v).(*FuncV)
		return x.callStatic(fv.Fn, args, fv.Bindings)
	}
	fv, ok := x.get(fr, call.Value).(*FuncV)
	if !ok {
		unsupported("call of %T", x.get(fr, call.Value))
	}
	if fv.Fn != nil {
		return x.callStatic(fv.Fn, args, fv.Bindings)
	}
	// dynamic call through a function value: uniform contract of its named type
	x.safety("nil-deref", "funcvalue", not(eq(fv.Id, tZero)), "function value != nil")
	if nt, ok := call.Value.Type().(*types.Named); ok && nt.Obj().Pkg() != nil {
		key := nt.Obj().Pkg().Path() + "::" + nt.Obj().Name()
		if c := x.eng.specs.FTypes[key]; c != nil {
			return x.applyContract(c, nil, call.Signature(), args, fv.Id, "call-pre", nt.Obj().Name())
		}
	}
	if c := x.eng.ftBySig[typeKey(call.Value.Type())]; c != nil {
		x.assumed["FTYPE uniform contract of "+c.Target+" is assumed at calls through the table"] = true
		return x.applyContract(c, nil, call.Signature(), args, fv.Id, "call-pre", c.Target)
	}
	// a set of possible targets may be known from an extern declaration by type string
	unsupported("dynamic call through %s without a functype contract", typeKey(call.Value.Type()))
	return nil
}

func (x *Exec) callIface(iv *IfaceV, call *ssa.CallCommon, args []Val) Val {
	recvT := call.Value.Type()
	name := typeKey(recvT) + "." + call.Method.Name()
	full := "(" + types.TypeString(recvT, qual) + ")." + call.Method.Name()
	if c := x.eng.specs.Externs[full]; c != nil {
		return x.applyContract(c, nil, call.Signature(), append([]Val{iv}, args...), nil, "extern-pre", name)
	}
	if nt, ok := recvT.(*types.Named); ok && nt.Obj().Pkg() != nil {
		key := nt.Obj().Pkg().Path() + "::" + nt.Obj().Name() + "." + call.Method.Name()
		if c := x.eng.specs.Ifaces[key]; c != nil {
			return x.applyContract(c, nil, call.Signature(), append([]Val{iv}, args...), nil, "call-pre", name)
		}
	}
	// built-in knowledge: error.Error()
	if typeKey(recvT) == "error" && call.Method.Name() == "Error" {
		return x.freshVal(types.Typ[types.String], "errmsg")
	}
	x.undeclared(full)
	return x.freshResult(call.Signature())
}

func (x *Exec) undeclared(name string) {
	// an unknown callee invalidates every property the unit serves (everything after it would be vacuous)
	props := []string{"C01", "C06", "C14"}
	seen := map[string]bool{"C01": true, "C06": true, "C14": true}
	for _, c := range []*Contract{x.eng.contractOf[x.unit], x.unitFType} {
		if c == nil {
			continue
		}
		ps := append([]string{}, c.Props...)
		for _, cl := range c.Clauses {
			ps = append(ps, cl.Props...)
		}
		for _, p := range ps {
			if !seen[p] {
				seen[p] = true
				props = append(props, p)
			}
		}
	}
	x.oblige("undeclared-external", name, props, tFalse, "call to "+name+" which has no extern contract")
}

func (x *Exec) freshResult(sig *types.Signature) Val {
	res := sig.Results()
	switch res.Len() {
	case 0:
		return nil
	case 1:
		return x.freshVal(res.At(0).Type(), "res")
	}
	tv := &TupleV{T: res}
	for i := 0; i < res.Len(); i++ {
		tv.E = append(tv.E, x.freshVal(res.At(i).Type(), fmt.Sprintf("res%d", i)))
	}
	return tv
}

func (x *Exec) callStatic(fn *ssa.Function, args []Val, bindings []Val) Val {
	if fn.String() == "errors.As" && len(args) == 2 {
		// errors.As(err, &target): built-in model: target is overwritten; on success it is non-nil
		x.externSites++
		x.assumed["errors.As"] = true
		res := x.sc.fresh(SBool, "as_ok")
		if iv, ok := args[1].(*IfaceV); ok {
			if p, ok := iv.Known.(*PtrV); ok {
				nv := x.freshVal(pointeeType(p), "as_target")
				x.storeTo(p, nv)
				switch t := nv.(type) {
				case *IfaceV:
					x.assumeHere(implies(res, not(eq(t.Tag, tZero))))
				case *PtrV:
					if t.Kind == PObj && len(t.Path) == 0 {
						x.assumeHere(implies(res, not(eq(t.Base, tZero))))
					}
				}
				return &Scalar{types.Typ[types.Bool], res}
			}
		}
		unsupported("errors.As with a target that is not the address of a local variable")
	}
	full := fn.String()
	if fn.Origin() != nil {
		full = fn.Origin().String()
	}
	if c := x.eng.specs.Externs[full]; c != nil {
		return x.applyContract(c, fn, fn.Signature, args, nil, "extern-pre", shortFn(fn))
	}
	c := x.eng.contractOf[fn]
	if c == nil && fn.Origin() != nil {
		c = x.eng.contractOf[fn.Origin()] // instantiation of a generic function under contract
	}
	if c != nil && !c.Attrs["inline"] {
		// a function literal under contract: its free variables are visible in the contract by name (as pointers)
		x.closureBindings = bindings
		defer func() { x.closureBindings = nil }()
		return x.applyContract(c, fn, fn.Signature, args, nil, "call-pre", fn.Name())
	}
	if x.eng.inlinable(fn) {
		saved := x.curPos
		r := x.run(fn, args, bindings, false)
		x.curPos = saved
		return r
	}
	if stdPureFn(fn) {
		// a side-effect-free function of the standard library without a declared contract: it writes nothing, its result is
		// unconstrained (so nothing that depends on its meaning can be proved); assumed panic-free, listed in the evidence
		x.externSites++
		x.assumed["STDPURE "+full] = true
		res := x.freshResult(fn.Signature)
		if tv, ok := res.(*TupleV); ok {
			for _, el := range tv.E {
				x.assumeTypeInv(el, tTrue)
			}
		} else if res != nil {
			x.assumeTypeInv(res, tTrue)
		}
		return res
	}
	x.undeclared(shortFn(fn))
	x.havocReachable(args)
	return x.freshResult(fn.Signature)
}

// stdPureFn: package-level functions of the standard library that neither write through their arguments nor read the
// environment. (Methods of Builder/Buffer/Reader/Replacer are not package-level functions and are not included; sort.*,
// os.*, time.*, rand.*, filepath.Abs/Glob/Walk/EvalSymlinks are deliberately absent.)
func stdPureFn(fn *ssa.Function) bool {
	if fn.Signature.Recv() != nil || fn.Pkg == nil {
		return false
	}
	name := fn.Name()
	if fn.Origin() != nil {
		name = fn.Origin().Name()
	}
	switch fn.Pkg.Pkg.Path() {
	case "strings", "bytes":
		switch name {
		case "NewReader", "NewReplacer", "NewBuffer", "NewBufferString":
			return false
		}
		return true
	case "strconv", "unicode", "unicode/utf8", "unicode/utf16", "math", "math/bits", "path":
		return true
	case "path/filepath":
		switch name {
		case "Clean", "Join", "Dir", "Base", "Ext", "IsAbs", "Split", "ToSlash", "FromSlash", "VolumeName", "SplitList", "IsLocal", "Match":
			return true
		}
	case "fmt":
		switch name {
		case "Sprintf", "Sprint", "Sprintln", "Errorf":
			return true
		}
	case "errors":
		switch name {
		case "New", "Is", "Unwrap", "Join":
			return true
		}
	case "slices", "maps":
		switch name {
		case "Contains", "Index", "Equal", "Clone", "Keys", "Values", "IndexFunc", "ContainsFunc":
			return true
		}
	}
	return false
}

// havocReachable: an unknown callee may write anything reachable from its
// pointer arguments; we do not model that, so the function is unsupported
// beyond the undeclared-external failure (which already fails the run).
func (x *Exec) havocReachable(args []Val) {}

// ---------------------------------------------------------------------------
// applying a contract at a call site

func (x *Exec) contractEnv(c *Contract, fn *ssa.Function, sig *types.Signature, args []Val, self *Term, st *State) *SpecEnv {
	env := &SpecEnv{x: x, vars: map[string]Val{}, st: st, old: st, pkgPath: c.Pkg}
	var names []string
	if len(c.Params) > 0 {
		names = c.Params
	} else if fn != nil {
		for _, p := range fn.Params {
			names = append(names, p.Name())
		}
	}
	if len(names) > len(args) {
		specErr("%s: contract names %d parameters, call has %d arguments", c.Where, len(names), len(args))
	}
	for i, n := range names {
		env.vars[n] = args[i]
	}
	if fn != nil && len(fn.FreeVars) > 0 && len(x.closureBindings) == len(fn.FreeVars) {
		for i, fv := range fn.FreeVars {
			if _, taken := env.vars[fv.Name()]; !taken {
				env.vars[fv.Name()] = x.closureBindings[i]
			}
		}
	}
	if self != nil {
		env.vars["self"] = &FuncV{Id: self}
	}
	return env
}

func (x *Exec) bindResult(env *SpecEnv, r Val) {
	if r == nil {
		return
	}
	env.vars["result"] = r
	if tv, ok := r.(*TupleV); ok {
		for i, e := range tv.E {
			env.vars[fmt.Sprintf("result%d", i)] = e
		}
	}
}

func (x *Exec) applyContract(c *Contract, fn *ssa.Function, sig *types.Signature, args []Val, self *Term, kind, detail string) Val {
	pre := x.st.clone()
	env := x.contractEnv(c, fn, sig, args, self, pre)
	if c.IsExtern {
		x.assumed[c.Target] = true
		x.externSites++
	}
	if c.Attrs["trusted"] {
		x.assumed["TRUSTED "+c.Target] = true
	}
	// recursion: a call of the function being verified must decrease its declared measure (lexicographic, bounded below)
	if fn != nil && fn == x.unit && len(x.entryMeasure) > 0 && !c.IsFType {
		var now []*Term
		for _, cl := range c.clauses("decreases") {
			for _, e := range splitTop(cl.Text, ',') {
				now = append(now, x.evalInt(env, parseExpr(e, cl.Where)))
			}
		}
		if len(now) > 0 {
			x.oblige("termination", "recursion/"+detail, clauseProps(c.clauses("decreases")[0], c), lexLess(now, x.entryMeasure), "the measure of the recursive call is smaller than the measure on entry, which is >= 0")
		}
	}
	for _, cl := range c.clauses("requires") {
		t := x.evalBool(env, cl.expr())
		d := detail
		if cl.Label != "" {
			d = detail + "/" + cl.Label
		}
		x.oblige(kind, d, clauseProps(cl, c), t, cl.Text)
		// a known finding recorded for this clause label with an "except" class: also generate the
		// obligation restricted to everything outside that class, so that any other failure is still a violation
		if cl.Label != "" {
			for _, k := range x.eng.known {
				if k.Status == "open" && k.Label == cl.Label && k.Except != "" {
					ex := x.evalBool(env, parseExpr(k.Except, "known_findings.txt"))
					n := len(x.sc.obs)
					x.oblige(kind, d+"/outside-known-class", clauseProps(cl, c), or(ex, t), "outside the recorded class ("+k.Except+"): "+cl.Text)
					if len(x.sc.obs) > n {
						x.sc.obs[len(x.sc.obs)-1].WeakOf = x.sc.obs[len(x.sc.obs)-2].Name
						x.sc.obs[len(x.sc.obs)-1].NoAssume = true
					}
				}
			}
		}
	}
	// havoc the frame
	for _, cl := range c.clauses("modifies") {
		for _, part := range splitTop(cl.Text, ',') {
			if strings.TrimSpace(part) == "" || strings.TrimSpace(part) == "nothing" {
				continue
			}
			if strings.TrimSpace(part) == "anything" {
				kept := x.keptEntries(c)
				x.havocAll()
				for k, v := range kept {
					x.st.heap[k] = v
				}
				continue
			}
			x.havocLvalue(env, parseExpr(part, cl.Where))
		}
	}
	for _, cl := range c.clauses("ghost") {
		lhs, _ := splitGhost(cl)
		x.havocLvalue(env, parseExpr(lhs, cl.Where))
	}
	if !c.Attrs["pure"] {
		na := x.sc.fresh(SInt, "alloc")
		x.sc.assume(le(x.st.alloc, na))
		x.st.alloc = na
	}
	res := x.freshResult(sig)
	post := &SpecEnv{x: x, vars: env.vars, st: x.st, old: pre, pkgPath: c.Pkg}
	x.bindResult(post, res)
	for _, cl := range c.clauses("ghost") {
		lhs, rhs := splitGhost(cl)
		l := x.evalExpr(post, parseExpr(lhs, cl.Where))
		r := x.evalExpr(post, parseExpr(rhs, cl.Where))
		x.assumeHere(x.eqVal(x.coerce(l, r), x.coerce(r, l)))
	}
	for _, cl := range c.clauses("ensures") {
		x.assumeHere(x.evalBool(post, cl.expr()))
	}
	// "assume" clauses: facts the callee's own verification does NOT establish (listed as assumptions in the evidence)
	for _, cl := range c.clauses("assume") {
		x.assumeHere(x.evalBool(post, cl.expr()))
		x.assumed["ASSUME "+c.Target+": "+cl.Text] = true
	}
	if c.Attrs["noreturn"] {
		x.st.guard = tFalse
	}
	if x.sym != nil && (c.IsFType || !c.IsExtern || c.Attrs["deterministic"]) {
		// two-copy runs: a callee is a function of its arguments and of the heap
		x.symDynamic(c, pre, self, args, res)
	}
	return res
}

func splitGhost(cl *Clause) (string, string) {
	i := strings.Index(cl.Text, ":=")
	if i < 0 {
		specErr("%s: ghost clause needs :=", cl.Where)
	}
	return strings.TrimSpace(cl.Text[:i]), strings.TrimSpace(cl.Text[i+2:])
}

// havocLvalue overwrites the locations denoted by an l-value expression with fresh values.
func (x *Exec) havocLvalue(env *SpecEnv, e ast.Expr) {
	for _, l := range x.lvalueLocs(env, e) {
		x.writeLoc(x.st, l.loc, x.sc.fresh(l.leafSort, "hv"))
	}
}

type lvLoc struct {
	loc      loc
	leafSort Sort
	whole    bool // the entry at idx[0] is replaced as a whole (inner array / map contents)
}

// lvalueLocs resolves a modifies item to heap locations (evaluated in env.st).
func (x *Exec) lvalueLocs(env *SpecEnv, e ast.Expr) []lvLoc {
	var out []lvLoc
	// modset abbreviation: name(arg) or pkg.name(arg)
	if ce, ok := e.(*ast.CallExpr); ok && len(ce.Args) == 1 {
		var ms *SpecFn
		switch f := ce.Fun.(type) {
		case *ast.Ident:
			ms = x.eng.specs.Fns[env.pkgPath+"::modset:"+f.Name]
		case *ast.SelectorExpr:
			if id, ok := f.X.(*ast.Ident); ok {
				if p := x.importedPkg(env.pkgPath, id.Name); p != nil {
					ms = x.eng.specs.Fns[p.Path()+"::modset:"+f.Sel.Name]
				}
			}
		}
		if ms != nil {
			inner := &SpecEnv{x: x, vars: map[string]Val{}, st: env.st, old: env.old, pkgPath: ms.Pkg}
			inner.vars[ms.Params[0].Name] = x.evalExpr(env, ce.Args[0])
			for _, part := range splitTop(ms.Body, ',') {
				if strings.TrimSpace(part) != "" {
					out = append(out, x.lvalueLocs(inner, parseExpr(part, ms.Where))...)
				}
			}
			return out
		}
	}
	switch e := e.(type) {
	case *ast.ParenExpr:
		return x.lvalueLocs(env, e.X)
	case *ast.SliceExpr:
		v := x.evalExpr(env, e.X)
		switch v := v.(type) {
		case *SliceV:
			et := under(v.T).(*types.Slice).Elem()
			for _, lf := range leavesOf(et) {
				l := x.locOf(&PtrV{Kind: PElem, Base: v.Arr, Idx: tZero, Root: et}, lf)
				l.idx = l.idx[:1]
				out = append(out, lvLoc{loc: l, leafSort: arrSort(SInt, lf.sort), whole: true})
			}
		case *Scalar:
			mt, ok := under(v.T).(*types.Map)
			if !ok {
				specErr("modifies %s[:]: not a slice or map", exprString(e.X))
			}
			dom, ln, vals, vl := x.mapLocs(v.T, mt)
			ks := keySort(mt.Key())
			dom.idx = []*Term{v.t}
			ln.idx = []*Term{v.t}
			out = append(out, lvLoc{loc: dom, leafSort: arrSort(ks, SBool), whole: true}, lvLoc{loc: ln, leafSort: SInt})
			for i, l := range vals {
				l.idx = []*Term{v.t}
				out = append(out, lvLoc{loc: l, leafSort: arrSort(ks, vl[i].sort), whole: true})
			}
		default:
			specErr("modifies %s[:]: not a slice or map", exprString(e.X))
		}
		return out
	case *ast.CallExpr:
		if id, ok := e.Fun.(*ast.Ident); ok && id.Name == "allfield" && len(e.Args) == 2 {
			// allfield(T, f): field f of every object of struct type T
			t := x.resolveType(env.pkgPath, e.Args[0])
			fid, ok2 := e.Args[1].(*ast.Ident)
			if t == nil || !ok2 {
				specErr("allfield(T, field): cannot resolve %s", types.ExprString(e))
			}
			p := x.fieldAddr(env, &PtrV{T: types.NewPointer(t), Kind: PObj, Base: tZero, Root: t}, fid.Name)
			for _, lf := range leavesOf(pointeeType(p)) {
				l := x.locOf(p, lf)
				l.idx = nil
				out = append(out, lvLoc{loc: l, leafSort: l.sort, whole: true})
			}
			return out
		}
		if id, ok := e.Fun.(*ast.Ident); ok && id.Name == "allelems" && len(e.Args) == 1 {
			// allelems(T): the elements of every []T backing array
			t := x.resolveType(env.pkgPath, e.Args[0])
			if t == nil {
				specErr("allelems(T): cannot resolve %s", types.ExprString(e))
			}
			for _, lf := range leavesOf(t) {
				l := x.locOf(&PtrV{Kind: PElem, Base: tZero, Idx: tZero, Root: t}, lf)
				l.idx = nil
				out = append(out, lvLoc{loc: l, leafSort: l.sort, whole: true})
			}
			return out
		}
		if id, ok := e.Fun.(*ast.Ident); ok && id.Name == "allmaps" && len(e.Args) == 1 {
			// allmaps(map[K]V): the entries of every map of that type
			t := x.resolveType(env.pkgPath, e.Args[0])
			mt, isMap := t.(*types.Map)
			if t == nil || !isMap {
				specErr("allmaps(T): cannot resolve map type %s", types.ExprString(e))
			}
			dom, ln, vals, _ := x.mapLocs(t, mt)
			dom.idx, ln.idx = nil, nil
			out = append(out, lvLoc{loc: dom, leafSort: dom.sort, whole: true}, lvLoc{loc: ln, leafSort: ln.sort, whole: true})
			for _, l := range vals {
				l.idx = nil
				out = append(out, lvLoc{loc: l, leafSort: l.sort, whole: true})
			}
			return out
		}
		if id, ok := e.Fun.(*ast.Ident); ok && id.Name == "fields" {
			p := x.ptrOf(x.evalExpr(env, e.Args[0]))
			for _, lf := range leavesOf(pointeeType(p)) {
				out = append(out, lvLoc{loc: x.locOf(p, lf), leafSort: lf.sort})
			}
			for _, g := range x.eng.specs.Ghosts {
				gt := x.resolveType(g.Pkg, parseExpr(g.Type, "ghost"))
				if gt != nil && types.Identical(gt, pointeeType(p)) {
					gp := x.fieldAddr(env, p, g.Name)
					for _, lf := range leavesOf(pointeeType(gp)) {
						out = append(out, lvLoc{loc: x.locOf(gp, lf), leafSort: lf.sort})
					}
				}
			}
			return out
		}
	}
	p := x.evalAddr(env, e)
	for _, lf := range leavesOf(pointeeType(p)) {
		out = append(out, lvLoc{loc: x.locOf(p, lf), leafSort: lf.sort})
	}
	return out
}

// keptEntries: `keeps T1, T2` next to `modifies anything`: every field of every object of the listed struct types keeps
// its value (the heap entries of those types survive the havoc). Returns the current incarnations by heap key.
func (x *Exec) keptEntries(c *Contract) map[string]*Term {
	out := map[string]*Term{}
	for _, key := range x.keptKeys(c) {
		out[key.key] = x.heapArr(x.st, key)
	}
	return out
}

func (x *Exec) keptKeys(c *Contract) []loc {
	var out []loc
	for _, cl := range c.clauses("keeps") {
		for _, part := range splitTop(cl.Text, ',') {
			part = strings.TrimSpace(part)
			if part == "" {
				continue
			}
			t := x.resolveType(c.Pkg, parseExpr(part, cl.Where))
			if t == nil {
				specErr("keeps %s: cannot resolve the type", part)
			}
			if _, ok := under(t).(*types.Struct); !ok {
				specErr("keeps %s: not a struct type", part)
			}
			for _, lf := range leavesOf(t) {
				l := x.locOf(&PtrV{T: types.NewPointer(t), Kind: PObj, Base: tZero, Root: t}, lf)
				l.idx = nil
				out = append(out, l)
			}
		}
	}
	return out
}

func exprString(e ast.Expr) string {
	var b strings.Builder
	ast.Fprint(&b, nil, e, nil)
	return types.ExprString(e)
}

// ---------------------------------------------------------------------------
// builtins

func (x *Exec) builtin(fr *Frame, b *ssa.Builtin, call *ssa.CallCommon, args []Val, site ssa.Value) Val {
	switch b.Name() {
	case "len":
		switch v := args[0].(type) {
		case *SliceV:
			return &Scalar{types.Typ[types.Int], v.Len}
		case *Scalar:
			if v.t.Sort == SString {
				l := x.sc.def(app(SInt, "str.len", v.t), "len")
				// a Go string is shorter than the address space (same bound as slice capacities)
				x.assumeHere(le(l, bigLit("4611686018427387904")))
				return &Scalar{types.Typ[types.Int], l}
			}
			if mt, ok := under(call.Args[0].Type()).(*types.Map); ok {
				l := x.sc.def(x.mapLen(x.st, call.Args[0].Type(), mt, v.t), "len")
				x.assumeHere(and(le(tZero, l), le(l, bigLit("4611686018427387904"))))
				return &Scalar{types.Typ[types.Int], l}
			}
		case *PtrV:
			if at, ok := under(pointeeType(v)).(*types.Array); ok {
				return &Scalar{types.Typ[types.Int], intLit(at.Len())}
			}
		}
		unsupported("len of %T", args[0])
	case "cap":
		if v, ok := args[0].(*SliceV); ok {
			return &Scalar{types.Typ[types.Int], v.Cap}
		}
		unsupported("cap of %T", args[0])
	case "append":
		return x.appendOp(args[0].(*SliceV), args[1], site.Type())
	case "copy":
		return x.copyOp(args[0].(*SliceV), args[1])
	case "delete":
		mt := under(call.Args[0].Type()).(*types.Map)
		m := args[0].(*Scalar).t
		x.mapDelete(call.Args[0].Type(), mt, m, x.keyTerm(mt.Key(), args[1]))
		return nil
	case "print", "println":
		return nil
	case "min", "max":
		a, b2 := args[0].(*Scalar), args[1].(*Scalar)
		c := lt(a.t, b2.t)
		if b.Name() == "max" {
			c = gt(a.t, b2.t)
		}
		return &Scalar{a.T, ite(c, a.t, b2.t)}
	}
	unsupported("builtin %s", b.Name())
	return nil
}

// elemArrays returns, per leaf of the element type, the heap location of the
// whole backing array `arr` (an inner Array Int leaf).
func (x *Exec) elemArrays(et types.Type, arr *Term) ([]loc, []leaf) {
	ls := leavesOf(et)
	var out []loc
	for _, lf := range ls {
		l := x.locOf(&PtrV{Kind: PElem, Base: arr, Idx: tZero, Root: et}, lf)
		l.idx = l.idx[:1]
		out = append(out, l)
	}
	return out, ls
}

func forallIdx(body func(j *Term) *Term, pat func(j *Term) *Term) *Term {
	j := &Term{"j!q", SInt}
	return &Term{"(forall ((j!q Int)) (! " + body(j).S + " :pattern (" + pat(j).S + ")))", SBool}
}

func (x *Exec) appendOp(s *SliceV, tv Val, rt types.Type) Val {
	et := under(s.T).(*types.Slice).Elem()
	var tArr, tOff, tLen *Term
	var strSrc *Term
	switch t := tv.(type) {
	case *SliceV:
		tArr, tOff, tLen = t.Arr, t.Off, t.Len
	case *Scalar: // append([]byte, string...)
		strSrc = t.t
		tLen = x.sc.def(app(SInt, "str.len", t.t), "len")
	default:
		unsupported("append of %T", tv)
	}
	n := x.sc.def(add(s.Len, tLen), "n")
	inPlace := x.sc.def(le(n, s.Cap), "inplace")
	newArr := x.allocRef()
	newCap := x.sc.fresh(SInt, "newcap")
	x.sc.assume(and(le(n, newCap), le(newCap, bigLit("4611686018427387904"))))
	resArr := x.sc.def(ite(inPlace, s.Arr, newArr), "arr")
	// appending nothing to a nil slice yields nil
	resArrNilSafe := x.sc.def(ite(and(eq(s.Arr, tZero), eq(tLen, tZero)), tZero, resArr), "arr")
	resOff := x.sc.def(ite(inPlace, s.Off, tZero), "off")
	locs, ls := x.elemArrays(et, tZero)
	for i, l := range locs {
		h := x.heapArr(x.st, l)
		sInner := x.sc.def(sel(h, s.Arr), "sin")
		var src func(k *Term) *Term // k-th appended element
		if strSrc != nil {
			src = func(k *Term) *Term { return app(SInt, "str.to_code", app(SString, "str.at", strSrc, k)) }
		} else {
			tInner := x.sc.def(sel(h, tArr), "tin")
			src = func(k *Term) *Term { return sel(tInner, add(tOff, k)) }
		}
		if tLen.S == "1" && os.Getenv("GOVC_FAST1") != "" {
			// common case: one element
			v := x.sc.def(src(tZero), "ev")
			// one new inner array, described per case by guarded facts (no ite over arrays)
			ni := x.sc.fresh(arrSort(SInt, ls[i].sort), "newin")
			x.sc.assume(implies(inPlace, eq(ni, store(sInner, add(s.Off, s.Len), v))))
			x.sc.assume(implies(not(inPlace), and(forallIdx(func(j *Term) *Term {
				return implies(and(le(tZero, j), lt(j, s.Len)), eq(sel(ni, j), sel(sInner, add(s.Off, j))))
			}, func(j *Term) *Term { return sel(ni, j) }), eq(sel(ni, s.Len), v))))
			x.noteWrite(l.key, nil)
			x.st.heap[l.key] = x.sc.def(store(h, resArr, ni), "H")
			continue
		}
		r := x.sc.fresh(arrSort(SInt, ls[i].sort), "appin")
		end := x.sc.def(add(s.Off, s.Len), "end")
		x.sc.assume(forallIdx(func(j *Term) *Term {
			inpl := ite(and(le(end, j), lt(j, add(end, tLen))), src(sub(j, end)), sel(sInner, j))
			re := ite(lt(j, s.Len), sel(sInner, add(s.Off, j)), src(sub(j, s.Len)))
			return ite(inPlace, eq(sel(r, j), inpl), implies(and(le(tZero, j), lt(j, n)), eq(sel(r, j), re)))
		}, func(j *Term) *Term { return sel(r, j) }))
		x.noteWrite(l.key, nil)
		x.st.heap[l.key] = x.sc.def(store(h, resArr, r), "H")
	}
	return &SliceV{T: rt, Arr: resArrNilSafe, Off: resOff, Len: n, Cap: x.sc.def(ite(inPlace, s.Cap, newCap), "cap")}
}

func (x *Exec) copyOp(d *SliceV, sv Val) Val {
	et := under(d.T).(*types.Slice).Elem()
	var sArr, sOff, sLen *Term
	var strSrc *Term
	switch s := sv.(type) {
	case *SliceV:
		sArr, sOff, sLen = s.Arr, s.Off, s.Len
	case *Scalar:
		strSrc = s.t
		sLen = app(SInt, "str.len", s.t)
	default:
		unsupported("copy from %T", sv)
	}
	n := x.sc.def(ite(lt(d.Len, sLen), d.Len, sLen), "n")
	locs, ls := x.elemArrays(et, tZero)
	for i, l := range locs {
		h := x.heapArr(x.st, l)
		dInner := x.sc.def(sel(h, d.Arr), "din")
		var src func(k *Term) *Term
		if strSrc != nil {
			src = func(k *Term) *Term { return app(SInt, "str.to_code", app(SString, "str.at", strSrc, k)) }
		} else {
			sInner := x.sc.def(sel(h, sArr), "sin")
			src = func(k *Term) *Term { return sel(sInner, add(sOff, k)) }
		}
		r := x.sc.fresh(arrSort(SInt, ls[i].sort), "cpin")
		x.sc.assume(forallIdx(func(j *Term) *Term {
			return eq(sel(r, j), ite(and(le(d.Off, j), lt(j, add(d.Off, n))), src(sub(j, d.Off)), sel(dInner, j)))
		}, func(j *Term) *Term { return sel(r, j) }))
		x.noteWrite(l.key, nil)
		x.st.heap[l.key] = x.sc.def(ite(eq(n, tZero), h, store(h, d.Arr, r)), "H")
	}
	return &Scalar{types.Typ[types.Int], n}
}
