package main

import (
	"fmt"
	"go/types"
	"os"
	"sort"
	"strings"
	"sync"
	"time"

	"golang.org/x/tools/go/ssa"
)

func (e *Engine) ftypeMembers() map[*ssa.Function]*Contract {
	out := map[*ssa.Function]*Contract{}
	for _, p := range e.prog.AllPackages() {
		if !strings.HasPrefix(p.Pkg.Path(), modPath) {
			continue
		}
		var fns []*ssa.Function
		for _, m := range p.Members {
			if f, ok := m.(*ssa.Function); ok {
				fns = append(fns, f)
			}
			if t, ok := m.(*ssa.Type); ok {
				for _, recv := range []types.Type{t.Type(), types.NewPointer(t.Type())} {
					ms := e.prog.MethodSets.MethodSet(recv)
					for i := 0; i < ms.Len(); i++ {
						if f := e.prog.MethodValue(ms.At(i)); f != nil {
							fns = append(fns, f)
						}
					}
				}
			}
		}
		seen := map[*ssa.Function]bool{}
		for len(fns) > 0 {
			f := fns[len(fns)-1]
			fns = fns[:len(fns)-1]
			if seen[f] {
				continue
			}
			seen[f] = true
			fns = append(fns, f.AnonFuncs...)
			for _, b := range f.Blocks {
				for _, in := range b.Instrs {
					ct, ok := in.(*ssa.ChangeType)
					if !ok {
						continue
					}
					target, ok := ct.X.(*ssa.Function)
					if !ok {
						continue
					}
					nt, ok := ct.Type().(*types.Named)
					if !ok || nt.Obj().Pkg() == nil {
						continue
					}
					if c := e.specs.FTypes[nt.Obj().Pkg().Path()+"::"+nt.Obj().Name()]; c != nil {
						out[target] = c
					}
				}
			}
		}
	}
	return out
}

func (e *Engine) allUnits() []*Unit {
	var us []*Unit
	seen := map[*ssa.Function]*Unit{}
	for fn, c := range e.contractOf {
		if c.Attrs["trusted"] {
			continue // contract assumed at call sites, body not verified (listed as an assumption by its callers)
		}
		u := e.newUnit(fn)
		seen[fn] = u
		us = append(us, u)
	}
	for fn, c := range e.ftypeMembers() {
		u := seen[fn]
		if u == nil {
			u = e.newUnit(fn)
			seen[fn] = u
			us = append(us, u)
		}
		u.FType = c
	}
	sort.Slice(us, func(i, j int) bool { return us[i].Name < us[j].Name })
	return us
}

func main() {
	if len(os.Args) < 2 {
		fmt.Fprintln(os.Stderr, "usage: govc check <ID> <tier> | unit <name-substring>... | list")
		os.Exit(2)
	}
	repo := os.Getenv("GOVC_REPO")
	if repo == "" {
		repo = "/repo"
	}
	t0 := time.Now()
	eng, err := loadEngine(repo)
	if err != nil {
		fmt.Fprintln(os.Stderr, "govc: load failed:", err)
		os.Exit(2)
	}
	vd := os.Getenv("GOVC_VERIF")
	if vd == "" {
		vd = "/verif"
	}
	if len(eng.missing) > 0 && os.Args[1] != "check" {
		for _, m := range eng.missing {
			fmt.Fprintln(os.Stderr, "govc: unresolved contract target:", m.msg)
		}
		os.Exit(2)
	}
	eng.known = loadKnown(vd + "/known_findings.txt")
	fmt.Fprintf(os.Stderr, "loaded in %.1fs\n", time.Since(t0).Seconds())
	switch os.Args[1] {
	case "list":
		for _, u := range eng.allUnits() {
			fmt.Println(u.Name, u.Own != nil, u.FType != nil)
		}
	case "unit":
		cmdUnit(eng, os.Args[2:])
	case "check":
		os.Exit(cmdCheck(eng, os.Args[2:]))
	case "sweep":
		cmdSweep(eng, os.Args[2:])
	case "mapranges":
		cmdMapRanges(eng)
	case "repeat":
		cmdRepeat(eng)
	default:
		fmt.Fprintln(os.Stderr, "unknown command")
		os.Exit(2)
	}
}

func cmdUnit(eng *Engine, pats []string) {
	dump := os.Getenv("GOVC_DUMP") != ""
	tmp, _ := os.MkdirTemp("", "govc")
	defer os.RemoveAll(tmp)
	cfg := &SolverCfg{TimeoutS: 10, TmpDir: tmp}
	var units []*Unit
	for _, u := range append(eng.allUnits(), eng.symUnits()...) {
		for _, p := range pats {
			if matchUnit(u.Name, p) {
				units = append(units, u)
				break
			}
		}
	}
	var wg sync.WaitGroup
	sem := make(chan struct{}, 16)
	for _, u := range units {
		wg.Add(1)
		sem <- struct{}{}
		go func(u *Unit) {
			defer wg.Done()
			defer func() { <-sem }()
			if u.Sym != nil {
				eng.translateSym(u)
			} else {
				eng.translate(u)
			}
			if u.Unsupp == "" && u.SpecFail == "" {
				solveUnit(u, cfg, nil)
			}
		}(u)
	}
	wg.Wait()
	for _, u := range units {
		fmt.Printf("== %s\n", u.Name)
		if u.Unsupp != "" {
			fmt.Println("   UNSUPPORTED:", u.Unsupp)
		}
		if u.SpecFail != "" {
			fmt.Println("   SPEC ERROR:", u.SpecFail)
		}
		if u.Script != nil {
			for _, ob := range u.Script.obs {
				ok := (ob.Cover && ob.Result != "unsat") || (!ob.Cover && ob.Result == "unsat")
				mark := "ok  "
				if !ok {
					mark = "FAIL"
				}
				if ok && os.Getenv("GOVC_V") == "" {
					continue
				}
				fmt.Printf("   %s %-70s %s %s [%s] %s\n", mark, ob.Name, ob.Result, ob.Solver, ob.Pos, ob.Goal)
				if !ok && ob.queryTxt != "" && dump {
					os.WriteFile("/tmp/govc_fail_"+sanitize(strings.ReplaceAll(ob.Name, "/", "_"))+".smt2", []byte(ob.queryTxt), 0o644)
				}
				if !ok && ob.Model != "" {
					fmt.Println("        " + strings.ReplaceAll(strings.TrimSpace(ob.Model), "\n", "\n        "))
				}
				if !ok && ob.Detail != "" && ob.Result != "sat" {
					fmt.Println("        " + strings.ReplaceAll(strings.TrimSpace(ob.Detail), "\n", "\n        "))
				}
			}
			if pat := os.Getenv("GOVC_DUMPOB"); pat != "" {
				for _, ob := range u.Script.obs {
					if strings.Contains(ob.Name, pat) {
						os.WriteFile("/tmp/govc_ob_"+sanitize(strings.ReplaceAll(ob.Name, "/", "_"))+".smt2", []byte(u.Script.render(ob)), 0o644)
					}
				}
			}
			if os.Getenv("GOVC_TIMES") != "" {
				for _, ob := range u.Script.obs {
					q := u.Script.render(ob)
					f := tmpFile(cfg, q)
					out, dt := runSolver(solvers[0], f, 30)
					os.Remove(f)
					if dt > 0.5 {
						fmt.Printf("   TIME %6.2fs %-8s %s  %s\n", dt, firstWord(out), ob.Name, ob.Goal)
					}
				}
			}
			fmt.Printf("   %d obligations\n", len(u.Script.obs))
			if dump {
				os.WriteFile("/tmp/govc_"+sanitize(u.Name)+".smt2", []byte(u.Script.renderIncremental()), 0o644)
			}
		}
	}
}

// matchUnit: "=name" matches the function name exactly (package prefix optional); otherwise substring.
func matchUnit(name, p string) bool {
	if strings.HasPrefix(p, "=") {
		return name == p[1:] || strings.HasSuffix(name, "."+p[1:])
	}
	return strings.Contains(name, p)
}

// cmdSweep: zero-annotation safety sweep: every function of the matching
// packages is translated with the contract it has (or none) and its safety
// obligations are reported. Exploratory tool, not a registered check.
func cmdSweep(eng *Engine, pats []string) {
	tmp, _ := os.MkdirTemp("", "govc")
	defer os.RemoveAll(tmp)
	cfg := &SolverCfg{TimeoutS: 5, TmpDir: tmp}
	var units []*Unit
	have := map[*ssa.Function]bool{}
	for _, u := range eng.allUnits() {
		have[u.Fn] = true
	}
	for _, p := range eng.prog.AllPackages() {
		if !strings.HasPrefix(p.Pkg.Path(), modPath) {
			continue
		}
		match := false
		for _, pat := range pats {
			if strings.Contains(p.Pkg.Path(), pat) {
				match = true
			}
		}
		if !match {
			continue
		}
		var fns []*ssa.Function
		for _, m := range p.Members {
			switch m := m.(type) {
			case *ssa.Function:
				fns = append(fns, m)
			case *ssa.Type:
				for _, recv := range []types.Type{m.Type(), types.NewPointer(m.Type())} {
					ms := eng.prog.MethodSets.MethodSet(recv)
					for i := 0; i < ms.Len(); i++ {
						if f := eng.prog.MethodValue(ms.At(i)); f != nil && f.Synthetic == "" {
							fns = append(fns, f)
						}
					}
				}
			}
		}
		seen := map[*ssa.Function]bool{}
		for _, f := range fns {
			if seen[f] || f.Blocks == nil || f.Name() == "init" {
				continue
			}
			seen[f] = true
			u := eng.newUnit(f)
			units = append(units, u)
		}
	}
	sort.Slice(units, func(i, j int) bool { return units[i].Name < units[j].Name })
	var wg sync.WaitGroup
	sem := make(chan struct{}, 16)
	for _, u := range units {
		wg.Add(1)
		sem <- struct{}{}
		go func(u *Unit) {
			defer wg.Done()
			defer func() { <-sem }()
			eng.translate(u)
			if u.Unsupp == "" && u.SpecFail == "" {
				solveUnitNoPortfolio(u, cfg)
			}
		}(u)
	}
	wg.Wait()
	for _, u := range units {
		status := "ok"
		var fails []string
		if u.Unsupp != "" {
			status = "UNSUPPORTED: " + u.Unsupp
		} else if u.SpecFail != "" {
			status = "SPEC: " + u.SpecFail
		} else {
			for _, ob := range u.Script.obs {
				if !ob.Cover && ob.Result != "unsat" {
					fails = append(fails, fmt.Sprintf("%s(%s) [%s] %s", ob.Name[len(u.Name):], ob.Result, ob.Pos, ob.Goal))
				}
			}
			if len(fails) > 0 {
				status = fmt.Sprintf("%d open", len(fails))
			}
		}
		n := 0
		if u.Script != nil {
			n = len(u.Script.obs)
		}
		fmt.Printf("%-70s %4d obs  %s\n", u.Name, n, status)
		for _, f := range fails {
			fmt.Printf("      %s\n", f)
		}
	}
}

func cmdMapRanges(eng *Engine) {
	for _, r := range eng.mapOrderChecks("C06") {
		st := "ok  "
		if !r.OK {
			st = "FLAG"
		}
		fmt.Printf("%s %s\n     %s\n", st, r.Name, strings.ReplaceAll(r.Detail, "\n", "\n     "))
	}
}
