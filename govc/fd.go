package main

import (
	"encoding/hex"
	"encoding/json"
	"fmt"
	"os"
	"os/exec"
	"path/filepath"
	"regexp"
	"strings"
	"time"

	"golang.org/x/tools/go/ssa"
)

// Finite-domain obligations: functions whose result goes through a Go map built at package load are cheaper to run than
// to encode. The REAL functions are evaluated on their complete finite domain (an in-package test injected with
// `go test -overlay`, nothing is written to /repo) and compared with the specification predicate of the contract file,
// evaluated by the spec evaluator on literals. Complete enumeration of a finite domain is a proof; it is counted
// separately (back end "finite-domain").

type fdResult struct {
	Name   string
	Props  []string
	Goal   string
	OK     bool
	Detail string
}

const dirPkg = modPath + "/directive"

func (e *Engine) specLiteralBool(pkgPath, expr string) (bool, error) {
	var fn *ssa.Function
	for f := range e.contractOf {
		fn = f
		break
	}
	x := newExec(e, fn)
	env := &SpecEnv{x: x, vars: map[string]Val{}, st: x.st, old: x.st, pkgPath: pkgPath}
	var res bool
	var err error
	func() {
		defer func() {
			if r := recover(); r != nil {
				err = fmt.Errorf("%v", r)
			}
		}()
		t := x.evalBool(env, parseExpr(expr, "finite-domain"))
		switch {
		case isLitTrue(t):
			res = true
		case isLitFalse(t):
			res = false
		default:
			err = fmt.Errorf("specification %s does not fold to a literal: %s", expr, t.S)
		}
	}()
	return res, err
}

func (e *Engine) specKeywords() []string {
	fn := e.specs.Fns[modPath+"/scanner::isKw"]
	if fn == nil {
		return nil
	}
	re := regexp.MustCompile(`"([A-Za-z]+)"`)
	var out []string
	for _, m := range re.FindAllStringSubmatch(fn.Body, -1) {
		out = append(out, m[1])
	}
	return out
}

func (e *Engine) finiteDomain(id string, tmp string) []fdResult {
	if id != "C11" && id != "C13" && id != "C09" && id != "C08" && id != "C12" && id != "C14" && id != "C19" {
		return nil
	}
	kws := e.specKeywords()
	var kwList []string
	for _, k := range kws {
		kwList = append(kwList, fmt.Sprintf("%q", k))
	}
	src := `package directive

import (
	"fmt"
	"testing"

	"github.com/jsightapi/jsight-schema-core/bytes"
)

func TestGovcFiniteDomain(t *testing.T) {
	for p := 0; p <= 30; p++ {
		for c := 0; c <= 30; c++ {
			fmt.Printf("CTX %d %d %v\n", p, c, Enumeration(p).IsAllowedForDirectiveContext(Enumeration(c)))
		}
	}
	for i, s := range ss {
		fmt.Printf("SS %d %s\n", i, s)
	}
	for _, w := range []string{` + strings.Join(kwList, ", ") + `} {
		e, err := NewDirectiveType(w)
		fmt.Printf("KW %s %d %v\n", w, int(e), err == nil)
	}
	for n := 0; n < 1000; n++ {
		s := fmt.Sprintf("%03d", n)
		e, err := NewDirectiveType(s)
		fmt.Printf("RC %s %d %v\n", s, int(e), err == nil)
	}
	// BOUNDED: IsStartWithDirective (the scanner's "does this line of a Description text start a directive") on
	// every keyword, every keyword followed by each byte, every proper prefix of a keyword followed by each byte,
	// every 3-digit string alone and followed by ' ' / 'x', and every string of at most 2 bytes over a small alphabet.
	seen := map[string]bool{}
	line := func(w string) {
		if seen[w] {
			return
		}
		seen[w] = true
		fmt.Printf("LS %x %v\n", w, IsStartWithDirective(bytes.NewBytes(w)))
	}
	for _, w := range []string{` + strings.Join(kwList, ", ") + `} {
		line(w)
		for c := 1; c < 256; c++ {
			line(w + string([]byte{byte(c)}))
			line(string([]byte{byte(c)}) + w)
		}
		for k := 1; k < len(w); k++ {
			line(w[:k])
			for c := 1; c < 256; c++ {
				line(w[:k] + string([]byte{byte(c)}))
				line(w[:k] + string([]byte{byte(c)}) + w[k:])
			}
		}
	}
	for n := 0; n < 1000; n++ {
		s := fmt.Sprintf("%03d", n)
		line(s)
		line(s + " ")
		line(s + "x")
		line(s[:2])
		line(s[:2] + "x")
	}
	// every 3-byte string whose first byte is '1'..'5' (the response-code branch), alone and followed by a blank: complete
	// for that branch; only disagreements with [1-5][0-9][0-9] are printed
	n3 := 0
	for a := byte('1'); a <= '5'; a++ {
		for b := 0; b < 256; b++ {
			for c := 0; c < 256; c++ {
				w := string([]byte{a, byte(b), byte(c)})
				want := b >= '0' && b <= '9' && c >= '0' && c <= '9'
				for _, suf := range []string{"", " x"} {
					n3++
					if got := IsStartWithDirective(bytes.NewBytes(w + suf)); got != want {
						fmt.Printf("LS %x %v\n", w+suf, got)
					}
				}
				if _, err := NewDirectiveType(w); (err == nil) != want {
					fmt.Printf("RC3 %x %v\n", w, err == nil)
				}
			}
		}
	}
	fmt.Printf("N3 %d\n", n3)
	for _, a := range []byte("aZ1 5\t/#@(") {
		line(string([]byte{a}))
		for _, b := range []byte("aZ1 5\t/#@(") {
			line(string([]byte{a, b}))
		}
	}
}
`
	testFile := filepath.Join(tmp, "zz_govc_fd_test.go")
	_ = os.WriteFile(testFile, []byte(src), 0o644)
	ov := map[string]map[string]string{"Replace": {filepath.Join(e.repo, "directive", "zz_govc_fd_test.go"): testFile}}
	ovb, _ := json.Marshal(ov)
	ovFile := filepath.Join(tmp, "overlay.json")
	_ = os.WriteFile(ovFile, ovb, 0o644)
	cmd := exec.Command("go", "test", "-overlay", ovFile, "-vet=off", "-count=1", "-timeout", "60s", "-v", "-run", "TestGovcFiniteDomain", "./directive")
	cmd.Dir = e.repo
	cmd.Env = append(os.Environ(), "GOFLAGS=-mod=mod", "GOPROXY=off", "GOSUMDB=off", "GOTOOLCHAIN=local")
	t0 := time.Now()
	outB, err := cmd.CombinedOutput()
	out := string(outB)
	if err != nil {
		return []fdResult{{Name: "directive/finite-domain/harness", Props: []string{id}, Goal: "harness runs", OK: false,
			Detail: fmt.Sprintf("go test failed: %v\n%s", err, out)}}
	}
	_ = t0
	var res []fdResult
	ss := map[int]string{}
	ctxBad, ctxN := []string{}, 0
	kwBad, rcBad := []string{}, []string{}
	kwN, rcN := 0, 0
	lsN := 0
	var lsBad []string
	kwSeen := map[string]int{}
	for _, l := range strings.Split(out, "\n") {
		f := strings.Fields(l)
		if len(f) == 0 {
			continue
		}
		switch f[0] {
		case "CTX":
			if len(f) != 4 {
				continue
			}
			ctxN++
			want, err := e.specLiteralBool(dirPkg, fmt.Sprintf("allowedSpec(%s, %s)", f[1], f[2]))
			if err != nil {
				ctxBad = append(ctxBad, err.Error())
				continue
			}
			if (f[3] == "true") != want {
				ctxBad = append(ctxBad, fmt.Sprintf("IsAllowedForDirectiveContext(parent=%s, child=%s) = %s, specification says %v", f[1], f[2], f[3], want))
			}
		case "SS":
			var i int
			fmt.Sscanf(f[1], "%d", &i)
			ss[i] = f[2]
		case "KW":
			kwN++
			var idx int
			fmt.Sscanf(f[2], "%d", &idx)
			kwSeen[f[1]] = idx
			if f[3] != "true" {
				kwBad = append(kwBad, fmt.Sprintf("keyword %q of the specification is unknown to NewDirectiveType", f[1]))
			} else if ss[idx] != f[1] {
				kwBad = append(kwBad, fmt.Sprintf("NewDirectiveType(%q) = %d whose name is %q", f[1], idx, ss[idx]))
			}
		case "LS":
			if len(f) != 3 {
				continue
			}
			lsN++
			wb, _ := hex.DecodeString(f[1])
			w := string(wb)
			want := false
			if len(w) >= 3 {
				if w[0] >= '1' && w[0] <= '5' && w[1] >= '0' && w[1] <= '9' && w[2] >= '0' && w[2] <= '9' {
					want = true
				}
				for _, k := range kws {
					if strings.HasPrefix(w, k) {
						want = true
					}
				}
			}
			if (f[2] == "true") != want && len(lsBad) < 12 {
				lsBad = append(lsBad, fmt.Sprintf("IsStartWithDirective(%q) = %s, the statement says %v (a line of a Description text starts a directive iff it begins with a keyword or a response code)", w, f[2], want))
			}
		case "N3":
			var n int
			fmt.Sscanf(f[1], "%d", &n)
			lsN += n
		case "RC3":
			wb, _ := hex.DecodeString(f[1])
			rcBad = append(rcBad, fmt.Sprintf("NewDirectiveType(%q) accepted=%s, a response code is [1-5][0-9][0-9]", string(wb), f[2]))
		case "RC":
			rcN++
			s := f[1]
			want := len(s) == 3 && s[0] >= '1' && s[0] <= '5'
			if (f[3] == "true") != want {
				rcBad = append(rcBad, fmt.Sprintf("NewDirectiveType(%q) accepted=%s, specification says %v", s, f[3], want))
			} else if want && f[2] != "15" {
				rcBad = append(rcBad, fmt.Sprintf("NewDirectiveType(%q) = %s, expected HTTPResponseCode (15)", s, f[2]))
			}
		}
	}
	// every name of the directive table (except the response-code placeholder) is a keyword of the specification
	for i, s := range ss {
		if s == "HTTP-response-code" {
			continue
		}
		if _, ok := kwSeen[s]; !ok {
			kwBad = append(kwBad, fmt.Sprintf("directive table entry %d %q is not a keyword of the specification (unreachable directive)", i, s))
		}
	}
	mk := func(name, goal string, n int, bad []string) fdResult {
		r := fdResult{Name: name, Goal: fmt.Sprintf("%s (%d cases, complete domain)", goal, n), OK: len(bad) == 0 && n > 0}
		if n == 0 {
			r.Detail = "no cases were evaluated\n" + out
		}
		if len(bad) > 0 {
			r.Detail = strings.Join(bad, "\n")
		}
		return r
	}
	if id == "C11" {
		r := mk("(directive.Enumeration).IsAllowedForDirectiveContext/finite-domain/context-table#1", "the map-based context table equals allowedSpec on 31 x 31", ctxN, ctxBad)
		r.Props = []string{"C11"}
		res = append(res, r)
	}
	if id == "C09" || id == "C08" || id == "C12" || id == "C14" || id == "C19" {
		// INCLUDE (like every keyword) must end a Description text wherever the cut falls: same bounded check, under C09;
		// a directive that is swallowed by a Description text is neither ban-checked (C19) nor, for INCLUDE, name-checked (C14)
		r3 := mk("directive.IsStartWithDirective/bounded/line-start#1", "BOUNDED (keywords alone, with each byte appended/prepended/inserted, their prefixes; every 3-byte string starting with 1-5, alone and followed by a blank): a Description line starts a directive iff it begins with a keyword (INCLUDE included) or a response code", lsN, lsBad)
		r3.Goal = strings.Replace(r3.Goal, "complete domain", "bounded sample, not a proof", 1)
		r3.Props = []string{id}
		res = append(res, r3)
	}
	if id == "C13" {
		r := mk("directive.NewDirectiveType/finite-domain/keywords#1", "the 30 keywords of the specification are exactly the names of the directive table", kwN, kwBad)
		r.Props = []string{"C13"}
		r2 := mk("directive.NewDirectiveType/finite-domain/response-codes#1", "three-digit strings are response codes iff [1-5][0-9][0-9]", rcN, rcBad)
		r2.Props = []string{"C13"}
		r3 := mk("directive.IsStartWithDirective/bounded/line-start#1", "BOUNDED (keywords alone, with each byte appended/prepended/inserted, their prefixes; every 3-byte string starting with 1-5, alone and followed by a blank): a Description line starts a directive iff it begins with a keyword or a response code", lsN, lsBad)
		r3.Goal = strings.Replace(r3.Goal, "complete domain", "bounded sample, not a proof", 1)
		r3.Props = []string{"C13"}
		res = append(res, r, r2, r3)
	}
	return res
}
