package main

import (
	"fmt"
	"go/constant"
	"go/token"
	"go/types"
	"sort"
	"strings"

	"golang.org/x/tools/go/ssa"
)

// State: path guard + heap (one SMT array per location class) + allocation counter.
type State struct {
	guard *Term
	heap  map[string]*Term
	alloc *Term
	// epochs: which incarnation an entry not yet in `heap` has. One alternative {true,"H0"} initially;
	// a call with "modifies anything" starts a new epoch; a merge of different epochs keeps the guarded alternatives.
	epochs []epochAlt
}

type epochAlt struct {
	guard  *Term
	prefix string
}

func (s *State) clone() *State {
	h := make(map[string]*Term, len(s.heap))
	for k, v := range s.heap {
		h[k] = v
	}
	return &State{guard: s.guard, heap: h, alloc: s.alloc, epochs: s.epochs}
}

func (s *State) sameEpoch(o *State) bool {
	if len(s.epochs) != len(o.epochs) {
		return false
	}
	for i := range s.epochs {
		if s.epochs[i].prefix != o.epochs[i].prefix || s.epochs[i].guard.S != o.epochs[i].guard.S {
			return false
		}
	}
	return true
}

// Exec translates one verification unit (a function under contract).
type Exec struct {
	eng      *Engine
	sc       *Script
	st       *State
	old      *State // state at entry of the unit
	unit     *ssa.Function
	contract *Contract
	obSeq    map[string]int
	stack    []*ssa.Function
	heapSort map[string]Sort
	assumed  map[string]bool // assumed extern contracts used
	unitName string
	notes    []string
	curPos   token.Pos
	curProps []string
	selfFn   *Term // functype verification: the id of the function itself
	closureBindings []Val // bindings of the function literal whose contract is being applied at a call site
	ghostInit bool
	measureAtEntry []*Term
	coverReturns int
	knownNonNil map[string]bool
	allocSeq    map[string]int
	allocN      int
	scratches   []*scratchInfo
	frameAllowed map[string][]lvLoc
	frameProps   []string
	frameOn      bool
	retHook      func(val Val)
	retFrame     *Frame
	entryMeasure []*Term
	externSites  int
	sym          *symSession
	unitFType    *Contract
	assumeSafe   bool
	frameKeepOnly map[string]bool
	unitProps    []string
	tailNext     bool
	retGuards    []*Term
}

func newExec(e *Engine, unit *ssa.Function) *Exec {
	x := &Exec{eng: e, sc: newScript(), unit: unit, obSeq: map[string]int{}, heapSort: map[string]Sort{}, assumed: map[string]bool{}, knownNonNil: map[string]bool{}, allocSeq: map[string]int{}}
	x.unitName = shortFn(unit)
	x.st = &State{guard: tTrue, heap: map[string]*Term{}}
	x.st.alloc = x.sc.global("alloc0", SInt)
	x.sc.assume(lt(tZero, x.st.alloc))
	return x
}

// ---------------------------------------------------------------------------
// obligations

func (x *Exec) oblige(kind, detail string, props []string, cond *Term, goalTxt string) {
	if isLitTrue(cond) || isLitFalse(x.st.guard) {
		return
	}
	if x.assumeSafe && len(x.unitProps) > 0 && kind != "frame" && kind != "post" {
		// attr assumesafe: obligations that belong only to OTHER properties (safety, error locations of inlined code) are
		// assumed in this unit, not proved; listed in the evidence
		own := false
		for _, p := range props {
			for _, q := range x.unitProps {
				if p == q {
					own = true
				}
			}
		}
		if !own {
			x.assumeHere(cond)
			x.assumed["ASSUMESAFE "+x.unitName] = true
			return
		}
	}
	base := x.unitName + "/" + kind
	if detail != "" {
		base += "/" + detail
	}
	x.obSeq[base]++
	ob := &Obligation{Name: fmt.Sprintf("%s#%d", base, x.obSeq[base]), Kind: kind, Func: x.unitName, Props: props,
		Pos: x.eng.pos(x.curPos), Goal: goalTxt, Guard: x.st.guard, Cond: cond}
	if kind == "frame" || strings.HasSuffix(detail, "/frame") {
		ob.NoAssume = true
	}
	x.sc.addOb(ob)
}

func (x *Exec) cover(kind, detail string, props []string, cond *Term, goalTxt string) {
	base := x.unitName + "/" + kind
	if detail != "" {
		base += "/" + detail
	}
	x.obSeq[base]++
	ob := &Obligation{Name: fmt.Sprintf("%s#%d", base, x.obSeq[base]), Kind: kind, Func: x.unitName, Props: props,
		Pos: x.eng.pos(x.curPos), Goal: goalTxt, Guard: x.st.guard, Cond: cond, Cover: true}
	x.sc.addOb(ob)
}

var safetyProps = []string{"C01"}

func (x *Exec) safety(kind, detail string, cond *Term, txt string) {
	props := safetyProps
	if x.assumeSafe {
		// attr assumesafe: the unit is verified for its frame / postconditions only; the absence of run-time panics in
		// its body is assumed (listed in the evidence), not proved
		if !isLitTrue(cond) {
			x.assumeHere(cond)
			x.assumed["ASSUMESAFE "+x.unitName] = true
		}
		return
	}
	x.oblige(kind, detail, props, cond, txt)
}

func (x *Exec) assumeHere(t *Term) { x.sc.assume(implies(x.st.guard, t)) }

// ---------------------------------------------------------------------------
// heap

func quoteName(s string) string { return "|" + strings.ReplaceAll(s, "|", "_") + "|" }

// pathSuffix walks root through field indices, returning the textual path and the type reached.
func pathSuffix(root types.Type, path []int) (string, types.Type) {
	t := root
	var b strings.Builder
	for _, i := range path {
		switch u := under(t).(type) {
		case *types.Struct:
			f := u.Field(i)
			b.WriteString("." + f.Name())
			t = f.Type()
		case *types.Array:
			fmt.Fprintf(&b, "[%d]", i)
			t = u.Elem()
		default:
			unsupported("path through non-struct %s", typeKey(t))
		}
	}
	return b.String(), t
}

type loc struct {
	key  string
	sort Sort // sort of the heap entry
	idx  []*Term
}

func (x *Exec) locOf(p *PtrV, lf leaf) loc {
	ps, _ := pathSuffix(p.Root, p.Path)
	switch p.Kind {
	case PObj:
		stem := typeKey(p.Root)
		if p.Global != "" {
			stem = p.Global
		} else if _, ok := under(p.Root).(*types.Struct); !ok {
			stem = "cell:" + stem
		}
		return loc{stem + ps + lf.suffix, arrSort(SInt, lf.sort), []*Term{p.Base}}
	case PElem:
		return loc{"elem:" + typeKey(p.Root) + ps + lf.suffix, arrSort(SInt, arrSort(SInt, lf.sort)), []*Term{p.Base, p.Idx}}
	case PGlobal:
		return loc{"global:" + p.Global + ps + lf.suffix, lf.sort, nil}
	}
	panic("locOf")
}

func (x *Exec) heapArr(st *State, l loc) *Term {
	if t, ok := st.heap[l.key]; ok {
		return t
	}
	x.heapSort[l.key] = l.sort
	return x.epochValue(st, l.key, l.sort)
}

// epochValue: the incarnation of an entry that has not been touched in this state yet.
func (x *Exec) epochValue(st *State, key string, sort Sort) *Term {
	if len(st.epochs) <= 1 {
		prefix := "H0"
		if len(st.epochs) == 1 {
			prefix = st.epochs[0].prefix
		}
		return x.sc.global(quoteName(prefix+key), sort)
	}
	m := x.sc.fresh(sort, "Hep")
	for _, a := range st.epochs {
		x.sc.assume(implies(a.guard, eq(m, x.sc.global(quoteName(a.prefix+key), sort))))
	}
	st.heap[key] = m
	return m
}

// havocAll: a callee with "modifies anything": every heap entry, touched or not, gets a new incarnation.
func (x *Exec) havocAll() {
	x.sc.n++
	prefix := fmt.Sprintf("HA%d", x.sc.n)
	for k := range x.st.heap {
		if strings.HasPrefix(k, "local:") {
			continue // private locals are unreachable for any callee
		}
		x.noteWrite(k, nil)
		x.st.heap[k] = x.sc.global(quoteName(prefix+k), x.heapSort[k])
	}
	x.st.epochs = []epochAlt{{tTrue, prefix}}
	for _, si := range x.scratches {
		si.all = true
	}
	x.assumeGlobalInvs()
}

func (x *Exec) readLoc(st *State, l loc) *Term {
	t := x.heapArr(st, l)
	for _, i := range l.idx {
		t = sel(t, i)
	}
	return t
}

// noteWrite records, for every active scratch run, whether a write went to an
// object that existed at the loop head (old) or to one allocated since.
func (x *Exec) noteWrite(key string, idx []*Term) {
	for _, si := range x.scratches {
		fresh := false
		if len(idx) > 0 {
			if n, ok := x.allocSeq[idx[0].S]; ok && n > si.n0 {
				fresh = true
			}
		}
		if !fresh {
			si.oldTouched[key] = true
		}
	}
}

func (x *Exec) writeLoc(st *State, l loc, v *Term) {
	x.noteWrite(l.key, l.idx)
	a := x.heapArr(st, l)
	var n *Term
	switch len(l.idx) {
	case 0:
		n = v
	case 1:
		n = store(a, l.idx[0], v)
	case 2:
		n = store(a, l.idx[0], store(sel(a, l.idx[0]), l.idx[1], v))
	}
	st.heap[l.key] = x.sc.def(n, "H")
}

// pointeeType: the type a pointer points to (after its path).
func pointeeType(p *PtrV) types.Type {
	_, t := pathSuffix(p.Root, p.Path)
	return t
}

func (x *Exec) loadIn(st *State, p *PtrV) Val {
	t := pointeeType(p)
	ls := leavesOf(t)
	ts := make([]*Term, len(ls))
	for i, lf := range ls {
		ts[i] = x.readLoc(st, x.locOf(p, lf))
	}
	v, _ := x.unflatten(t, ts)
	return v
}

func (x *Exec) load(p *PtrV) Val {
	v := x.loadIn(x.st, p)
	x.assumeTypeInv(v, x.st.guard)
	return v
}

func (x *Exec) storeTo(p *PtrV, v Val) {
	t := pointeeType(p)
	ls := leavesOf(t)
	ts := x.flatten(v)
	if len(ts) != len(ls) {
		unsupported("store shape mismatch for %s", typeKey(t))
	}
	for i, lf := range ls {
		x.writeLoc(x.st, x.locOf(p, lf), ts[i])
	}
}

// allocObj allocates a fresh object of type t (zero initialised) and returns the pointer.
func (x *Exec) allocObj(t types.Type, ptrT types.Type, zero bool) *PtrV {
	return x.allocObjIn(t, ptrT, zero, "")
}

// allocObjIn: stem != "" places the object in a private heap family (non-escaping locals cannot alias heap objects).
func (x *Exec) allocObjIn(t types.Type, ptrT types.Type, zero bool, stem string) *PtrV {
	ref := x.allocRef()
	p := &PtrV{T: ptrT, Kind: PObj, Base: ref, Root: t, Global: stem}
	if zero {
		x.storeTo(p, x.zeroVal(t))
	}
	var gkeys []string
	for k := range x.eng.specs.Ghosts {
		gkeys = append(gkeys, k)
	}
	sort.Strings(gkeys)
	for _, gk := range gkeys {
		g := x.eng.specs.Ghosts[gk]
		gt := x.resolveType(g.Pkg, parseExpr(g.Type, "ghost"))
		if gt != nil && types.Identical(gt, t) {
			ft := x.resolveTypeStr(g.Pkg, g.GoType)
			gp := &PtrV{T: types.NewPointer(ft), Kind: PObj, Base: ref, Root: ft, Global: "ghost:" + typeKey(t) + "." + g.Name}
			x.storeTo(gp, x.zeroVal(ft))
		}
	}
	return p
}

func (x *Exec) allocRef() *Term {
	ref := x.st.alloc
	x.st.alloc = x.sc.def(add(ref, tOne), "alloc")
	x.allocN++
	x.allocSeq[ref.S] = x.allocN
	x.knownNonNil[ref.S] = true
	return ref
}

func (x *Exec) nonNil(p *PtrV, what string) {
	if p.Kind == PObj && len(p.Path) == 0 && !x.knownNonNil[p.Base.S] {
		x.safety("nil-deref", what, not(eq(p.Base, tZero)), what+" != nil")
	}
}

// ---------------------------------------------------------------------------
// frames (one per function activation, inlined or top-level)

type Frame struct {
	fn       *ssa.Function
	env      map[ssa.Value]Val
	bindings []Val
	out      map[*ssa.BasicBlock][]edgeState // incoming edge states per block
	rets     []retState
	loops    map[*ssa.BasicBlock]*loopInfo
	deferred []*ssa.Defer
	top      bool
	headSnap map[*ssa.BasicBlock]*headSnapshot
	scratch  *scratchInfo
	scratchDepth int
	skipPhis bool
	loopEntry map[*ssa.BasicBlock]*loopEntryInfo
	tail     bool // inlined in tail position of the unit: its returns are the unit's returns
}

type edgeState struct {
	from *ssa.BasicBlock
	st   *State
}

type retState struct {
	st  *State
	val Val
}

type loopInfo struct {
	head    *ssa.BasicBlock
	ordinal int
	body    map[*ssa.BasicBlock]bool
	spec    *Contract
}

type headSnapshot struct {
	measure []*Term
	st      *State
	wkeys   []string
}

func (x *Exec) get(fr *Frame, v ssa.Value) Val {
	switch v := v.(type) {
	case *ssa.Const:
		return x.constVal(v)
	case *ssa.Function:
		return &FuncV{T: v.Type(), Id: intLit(int64(x.eng.fnID(v))), Fn: v}
	case *ssa.Global:
		return &PtrV{T: v.Type(), Kind: PGlobal, Root: v.Type().(*types.Pointer).Elem(), Global: v.Pkg.Pkg.Path() + "." + v.Name()}
	case *ssa.Builtin:
		unsupported("builtin %s as value", v.Name())
	}
	if r, ok := fr.env[v]; ok {
		return r
	}
	unsupported("use of undefined value %s (%T) in %s", v.Name(), v, fr.fn)
	return nil
}

func (x *Exec) constVal(c *ssa.Const) Val {
	t := c.Type()
	if c.Value == nil {
		return x.zeroVal(t)
	}
	switch u := under(t).(type) {
	case *types.Basic:
		switch {
		case u.Info()&types.IsBoolean != 0:
			return &Scalar{t, boolLit(constant.BoolVal(c.Value))}
		case u.Info()&types.IsInteger != 0:
			return &Scalar{t, bigLit(c.Value.ExactString())}
		case u.Info()&types.IsString != 0:
			return &Scalar{t, strLit(constant.StringVal(c.Value))}
		case u.Info()&types.IsFloat != 0:
			return &Scalar{t, x.sc.fresh(SInt, "float")}
		}
	}
	unsupported("constant of type %s", typeKey(t))
	return nil
}

// computeLoops finds natural loops (back edge u->h with h dominating u).
func (x *Exec) computeLoops(fn *ssa.Function) map[*ssa.BasicBlock]*loopInfo {
	loops := map[*ssa.BasicBlock]*loopInfo{}
	for _, b := range fn.Blocks {
		for _, s := range b.Succs {
			if s.Dominates(b) {
				li := loops[s]
				if li == nil {
					li = &loopInfo{head: s, body: map[*ssa.BasicBlock]bool{s: true}}
					loops[s] = li
				}
				// body: all blocks that reach b without passing through s
				var stack []*ssa.BasicBlock
				if !li.body[b] {
					li.body[b] = true
					stack = append(stack, b)
				}
				for len(stack) > 0 {
					n := stack[len(stack)-1]
					stack = stack[:len(stack)-1]
					for _, p := range n.Preds {
						if !li.body[p] {
							li.body[p] = true
							stack = append(stack, p)
						}
					}
				}
			}
		}
	}
	var heads []*ssa.BasicBlock
	for h := range loops {
		heads = append(heads, h)
	}
	sort.Slice(heads, func(i, j int) bool { return heads[i].Index < heads[j].Index })
	specs := x.eng.loopsOf[fn]
	if specs == nil && fn.Origin() != nil {
		specs = x.eng.loopsOf[fn.Origin()]
	}
	for i, h := range heads {
		loops[h].ordinal = i + 1
		for _, c := range specs {
			if c.Loop == i+1 {
				loops[h].spec = c
			}
		}
	}
	return loops
}

// topo order ignoring back edges
func topo(fn *ssa.Function) []*ssa.BasicBlock {
	seen := map[*ssa.BasicBlock]bool{}
	var post []*ssa.BasicBlock
	var dfs func(b *ssa.BasicBlock)
	dfs = func(b *ssa.BasicBlock) {
		seen[b] = true
		for _, s := range b.Succs {
			if !seen[s] && !s.Dominates(b) {
				dfs(s)
			}
		}
		post = append(post, b)
	}
	dfs(fn.Blocks[0])
	for i, j := 0, len(post)-1; i < j; i, j = i+1, j-1 {
		post[i], post[j] = post[j], post[i]
	}
	return post
}

// mergeStates merges edge states into one (ite on guards).
func (x *Exec) mergeStates(es []*State) *State {
	if len(es) == 1 {
		return es[0].clone()
	}
	var guards []*Term
	for _, s := range es {
		guards = append(guards, s.guard)
	}
	out := &State{heap: map[string]*Term{}}
	out.guard = x.sc.def(or(guards...), "g")
	keys := map[string]bool{}
	for _, s := range es {
		for k := range s.heap {
			keys[k] = true
		}
	}
	var ks []string
	for k := range keys {
		ks = append(ks, k)
	}
	sort.Strings(ks)
	for _, k := range ks {
		vals := make([]*Term, len(es))
		same := true
		for i := range es {
			v, ok := es[i].heap[k]
			if !ok {
				v = x.epochValue(es[i], k, x.heapSort[k])
			}
			vals[i] = v
			if v.S != vals[0].S {
				same = false
			}
		}
		if same {
			out.heap[k] = vals[0]
			continue
		}
		// passive form: a fresh incarnation constrained per incoming edge (guarded
		// equalities are much easier for the solvers than ite over arrays)
		m := x.sc.fresh(x.heapSort[k], "Hm")
		for i := range es {
			x.sc.assume(implies(es[i].guard, eq(m, vals[i])))
		}
		out.heap[k] = m
	}
	var cur *Term
	for i := len(es) - 1; i >= 0; i-- {
		if cur == nil {
			cur = es[i].alloc
		} else {
			cur = ite(es[i].guard, es[i].alloc, cur)
		}
	}
	out.alloc = x.sc.def(cur, "alloc")
	allSame := true
	for _, s := range es[1:] {
		if !s.sameEpoch(es[0]) {
			allSame = false
		}
	}
	if allSame {
		out.epochs = es[0].epochs
	} else {
		for _, s := range es {
			if len(s.epochs) == 0 {
				out.epochs = append(out.epochs, epochAlt{s.guard, "H0"})
			}
			for _, a := range s.epochs {
				out.epochs = append(out.epochs, epochAlt{and(s.guard, a.guard), a.prefix})
			}
		}
	}
	return out
}

const maxInlineDepth = 12

// run executes fn from the current state and returns the merged return value; x.st is the merged exit state.
func (x *Exec) run(fn *ssa.Function, args []Val, bindings []Val, top bool) Val {
	if fn.Blocks == nil {
		unsupported("function %s has no body", fn)
	}
	for _, f := range x.stack {
		if f == fn {
			unsupported("recursive call of %s without a contract", shortFn(fn))
		}
	}
	if len(x.stack) > maxInlineDepth {
		unsupported("inlining depth exceeded at %s", shortFn(fn))
	}
	x.stack = append(x.stack, fn)
	defer func() { x.stack = x.stack[:len(x.stack)-1] }()

	fr := &Frame{fn: fn, env: map[ssa.Value]Val{}, bindings: bindings, out: map[*ssa.BasicBlock][]edgeState{}, top: top,
		headSnap: map[*ssa.BasicBlock]*headSnapshot{}, tail: x.tailNext}
	x.tailNext = false
	for i, p := range fn.Params {
		fr.env[p] = args[i]
	}
	for i, fv := range fn.FreeVars {
		fr.env[fv] = bindings[i]
	}
	fr.loops = x.computeLoops(fn)
	order := topo(fn)
	entrySt := x.st
	for _, b := range order {
		var st *State
		if b == fn.Blocks[0] {
			st = entrySt.clone()
		} else {
			ins := fr.out[b]
			if len(ins) == 0 {
				continue // unreachable
			}
			var sts []*State
			for _, e := range ins {
				sts = append(sts, e.st)
			}
			st = x.mergeStates(sts)
		}
		x.st = st
		if isLitFalse(st.guard) {
			continue
		}
		x.execBlock(fr, b)
	}
	// merge returns
	if len(fr.rets) == 0 {
		// function never returns (always panics or loops): dead state
		x.st = &State{guard: tFalse, heap: entrySt.heap, alloc: entrySt.alloc}
		return x.deadResult(fn)
	}
	var sts []*State
	for _, r := range fr.rets {
		sts = append(sts, r.st)
	}
	merged := x.mergeStates(sts)
	var val Val
	for i := len(fr.rets) - 1; i >= 0; i-- {
		if fr.rets[i].val == nil {
			continue
		}
		if val == nil {
			val = fr.rets[i].val
		} else {
			val = x.iteVal(fr.rets[i].st.guard, fr.rets[i].val, val)
		}
	}
	x.st = merged
	return val
}

func (x *Exec) deadResult(fn *ssa.Function) Val {
	res := fn.Signature.Results()
	switch res.Len() {
	case 0:
		return nil
	case 1:
		return x.zeroVal(res.At(0).Type())
	}
	tv := &TupleV{T: res}
	for i := 0; i < res.Len(); i++ {
		tv.E = append(tv.E, x.zeroVal(res.At(i).Type()))
	}
	return tv
}

func (x *Exec) phiVal(fr *Frame, phi *ssa.Phi, b *ssa.BasicBlock, ins []edgeState) Val {
	var val Val
	for i := len(ins) - 1; i >= 0; i-- {
		// find the operand index for this predecessor
		var v Val
		for pi, p := range b.Preds {
			if p == ins[i].from {
				v = x.get(fr, phi.Edges[pi])
				break
			}
		}
		if val == nil {
			val = v
		} else {
			val = x.iteVal(ins[i].st.guard, v, val)
		}
	}
	return val
}

func (x *Exec) execBlock(fr *Frame, b *ssa.BasicBlock) {
	ins := fr.out[b]
	li := fr.loops[b]
	if fr.skipPhis {
		fr.skipPhis = false
	} else if li != nil {
		x.enterLoop(fr, b, li, ins)
	} else {
		for _, instr := range b.Instrs {
			phi, ok := instr.(*ssa.Phi)
			if !ok {
				break
			}
			fr.env[phi] = x.phiVal(fr, phi, b, ins)
		}
	}
	for _, instr := range b.Instrs {
		if _, ok := instr.(*ssa.Phi); ok {
			continue
		}
		if instr.Pos().IsValid() {
			x.curPos = instr.Pos()
		}
		if isLitFalse(x.st.guard) {
			return
		}
		switch in := instr.(type) {
		case *ssa.If:
			c := x.get(fr, in.Cond).(*Scalar).t
			c = x.sc.def(c, "c")
			x.edge(fr, b, b.Succs[0], c)
			x.edge(fr, b, b.Succs[1], not(c))
			return
		case *ssa.Jump:
			x.edge(fr, b, b.Succs[0], tTrue)
			return
		case *ssa.Return:
			x.runDefers(fr)
			var val Val
			switch len(in.Results) {
			case 0:
			case 1:
				val = x.get(fr, in.Results[0])
			default:
				tv := &TupleV{T: fr.fn.Signature.Results()}
				for _, r := range in.Results {
					tv.E = append(tv.E, x.get(fr, r))
				}
				val = tv
			}
			if fr.scratch != nil {
				x.diffKeys(fr.scratch.base, x.st, fr.scratch.mod)
				return
			}
			if (fr.top || fr.tail) && x.retHook != nil && len(x.scratches) == 0 {
				// postconditions and frame are checked per return path (no merged state)
				if fr.top {
					x.retFrame = fr
				}
				x.retHook(val)
				x.retGuards = append(x.retGuards, x.st.guard)
				if fr.tail {
					return // the caller's "return f(...)" is this return
				}
			}
			fr.rets = append(fr.rets, retState{st: x.st, val: val})
			return
		case *ssa.Panic:
			x.safety("explicit-panic", "", tFalse, "panic is unreachable")
			x.st.guard = tFalse
			return
		default:
			x.execInstr(fr, instr)
		}
	}
}

func (x *Exec) edge(fr *Frame, from, to *ssa.BasicBlock, cond *Term) {
	g := and(x.st.guard, cond)
	if isLitFalse(g) {
		return
	}
	st := x.st.clone()
	st.guard = x.sc.def(g, "g")
	if to.Dominates(from) {
		// back edge
		x.backEdge(fr, from, to, st)
		return
	}
	if fr.scratch != nil && !fr.scratch.li.body[to] {
		x.diffKeys(fr.scratch.base, st, fr.scratch.mod)
		return
	}
	fr.out[to] = append(fr.out[to], edgeState{from: from, st: st})
}

func (x *Exec) runDefers(fr *Frame) {
	for i := len(fr.deferred) - 1; i >= 0; i-- {
		d := fr.deferred[i]
		x.doCall(fr, &d.Call, nil, d.Pos())
	}
}

func (x *Exec) intOf(fr *Frame, v ssa.Value) *Term {
	s, ok := x.get(fr, v).(*Scalar)
	if !ok {
		unsupported("expected scalar for %s", v.Name())
	}
	return s.t
}
