package main

import (
	"sync"
	"go/ast"
	"go/constant"
	"go/token"
	"go/types"
	"sort"

	"golang.org/x/tools/go/ssa"
)

type scratchInfo struct {
	li         *loopInfo
	base       map[string]*Term
	mod        map[string]bool
	oldTouched map[string]bool
	n0         int
	all        bool // the body calls something with "modifies anything"
}

type scriptSnap struct {
	nlines, nobs int
	seen         map[string]bool
	obSeq        map[string]int
}

func (x *Exec) snap() scriptSnap {
	s := scriptSnap{nlines: len(x.sc.lines), nobs: len(x.sc.obs), seen: map[string]bool{}, obSeq: map[string]int{}}
	for k, v := range x.sc.seen {
		s.seen[k] = v
	}
	for k, v := range x.obSeq {
		s.obSeq[k] = v
	}
	return s
}

func (x *Exec) restore(s scriptSnap) {
	x.sc.truncate(s.nlines)
	x.sc.obs = x.sc.obs[:s.nobs]
	x.sc.seen = s.seen
	x.obSeq = s.obSeq
}

func (x *Exec) diffKeys(base map[string]*Term, st *State, into map[string]bool) {
	for k, v := range st.heap {
		if b, ok := base[k]; !ok || b.S != v.S {
			into[k] = true
		}
	}
}

// headPhis lists the phi nodes of a block.
func headPhis(b *ssa.BasicBlock) []*ssa.Phi {
	var out []*ssa.Phi
	for _, in := range b.Instrs {
		if p, ok := in.(*ssa.Phi); ok {
			out = append(out, p)
		} else {
			break
		}
	}
	return out
}

// havocLoop: fresh phis, fresh heap entries for keys in w, fresh alloc.
func (x *Exec) havocLoop(fr *Frame, b *ssa.BasicBlock, w map[string]bool) {
	var ks []string
	for k := range w {
		ks = append(ks, k)
	}
	sort.Strings(ks)
	for _, k := range ks {
		x.st.heap[k] = x.sc.fresh(x.heapSort[k], "Hloop")
	}
	na := x.sc.fresh(SInt, "alloc")
	x.sc.assume(le(x.st.alloc, na))
	x.st.alloc = na
	for _, phi := range headPhis(b) {
		fr.env[phi] = x.freshVal(phi.Type(), "phi_"+phi.Comment)
	}
}

// autoInvariants: for an integer phi whose edges are a constant c and phi±1,
// the (checked) invariant phi >= c resp. phi <= c.
type autoInv struct {
	phi   *ssa.Phi
	lo    bool
	c     *Term
	below ssa.Value // non-nil: invariant phi < below (range-index pattern)
}

func autoInvariants(b *ssa.BasicBlock) []autoInv {
	var out []autoInv
	for _, phi := range headPhis(b) {
		bt, ok := under(phi.Type()).(*types.Basic)
		if !ok || bt.Info()&types.IsInteger == 0 {
			continue
		}
		var c *ssa.Const
		dir := 0
		okAll := true
		for _, e := range phi.Edges {
			switch ev := e.(type) {
			case *ssa.Const:
				if c != nil && !constant.Compare(c.Value, token.EQL, ev.Value) {
					okAll = false
				}
				c = ev
			case *ssa.BinOp:
				k, isC := ev.Y.(*ssa.Const)
				if ev.X != ssa.Value(phi) || !isC || k.Value == nil || k.Value.Kind() != constant.Int {
					okAll = false
					break
				}
				pos := constant.Sign(k.Value) > 0
				if (ev.Op == token.ADD && pos) || (ev.Op == token.SUB && !pos) {
					if dir < 0 {
						okAll = false
					}
					dir = 1
				} else if (ev.Op == token.SUB && pos) || (ev.Op == token.ADD && !pos) {
					if dir > 0 {
						okAll = false
					}
					dir = -1
				} else {
					okAll = false
				}
			default:
				if e != ssa.Value(phi) {
					okAll = false
				}
			}
		}
		if !okAll || c == nil || c.Value == nil || dir == 0 {
			continue
		}
		out = append(out, autoInv{phi: phi, lo: dir > 0, c: bigLit(c.Value.ExactString())})
		// range-index pattern: head is "inc = phi+1; if inc < N" with N defined before the loop
		if dir > 0 {
			if iff, ok := b.Instrs[len(b.Instrs)-1].(*ssa.If); ok {
				if cmp, ok := iff.Cond.(*ssa.BinOp); ok && cmp.Op == token.LSS {
					if inc, ok := cmp.X.(*ssa.BinOp); ok && inc.Block() == b && inc.X == ssa.Value(phi) && inc.Op == token.ADD {
						definedBefore := false
						switch n := cmp.Y.(type) {
						case *ssa.Const, *ssa.Parameter:
							definedBefore = true
						case ssa.Instruction:
							definedBefore = n.Block() != b && n.Block().Dominates(b)
						}
						isBackVal := false
						for _, e := range phi.Edges {
							if e == ssa.Value(inc) {
								isBackVal = true
							}
						}
						if definedBefore && isBackVal {
							out = append(out, autoInv{phi: phi, below: cmp.Y})
						}
					}
				}
			}
		}
	}
	return out
}

func (x *Exec) loopInvTerms(fr *Frame, li *loopInfo, phiVals map[*ssa.Phi]Val, st *State) (terms []*Term, clauses []*Clause) {
	for _, ai := range autoInvariants(li.head) {
		v := phiVals[ai.phi].(*Scalar).t
		var t *Term
		if ai.below != nil {
			t = lt(v, x.get(fr, ai.below).(*Scalar).t)
		} else if ai.lo {
			t = ge(v, ai.c)
		} else {
			t = le(v, ai.c)
		}
		terms = append(terms, t)
		clauses = append(clauses, &Clause{Kind: "invariant", Text: "auto: " + ai.phi.Comment + " bounded by its initial value", Props: safetyProps})
	}
	if li.spec != nil {
		for _, cl := range li.spec.clauses("invariant") {
			env := x.loopEnv(fr, li, phiVals, st)
			terms = append(terms, x.evalBool(env, cl.expr()))
			clauses = append(clauses, cl)
		}
	}
	return
}

func (x *Exec) loopEnv(fr *Frame, li *loopInfo, phiVals map[*ssa.Phi]Val, st *State) *SpecEnv {
	env := x.baseEnv(fr, st)
	// address-taken locals are visible by their source name (value = the variable's address; x.f reads through it)
	for v, val := range fr.env {
		if a, ok := v.(*ssa.Alloc); ok && a.Comment != "" {
			if _, taken := env.vars[a.Comment]; !taken {
				env.vars[a.Comment] = val
			}
		}
	}
	for phi, v := range phiVals {
		if phi.Comment != "" {
			env.vars[phi.Comment] = v
		}
	}
	// loop variables of the ENCLOSING loops are visible by name in the invariant of an inner loop (the phi of a loop head
	// whose body contains this loop's head); the innermost enclosing loop wins
	for v, val := range fr.env {
		phi, ok := v.(*ssa.Phi)
		if !ok || phi.Comment == "" {
			continue
		}
		if _, taken := env.vars[phi.Comment]; taken {
			continue
		}
		outer := fr.loops[phi.Block()]
		if outer == nil || outer == li || !outer.body[li.head] {
			continue
		}
		// innermost: no other enclosing loop with a phi of the same name lies inside `outer`
		innermost := true
		for w := range fr.env {
			q, ok := w.(*ssa.Phi)
			if !ok || q == phi || q.Comment != phi.Comment {
				continue
			}
			o2 := fr.loops[q.Block()]
			if o2 != nil && o2 != li && o2.body[li.head] && outer.body[o2.head] {
				innermost = false
			}
		}
		if innermost {
			env.vars[phi.Comment] = val
		}
	}
	// locals that are assigned exactly once (`name := expr`, never reassigned) are visible by their source name: the SSA
	// value is found by the position of the right-hand side (call: its "(", composite literal: its "{")
	for name, pos := range singleAssignLocals(fr.fn) {
		if _, taken := env.vars[name]; taken {
			continue
		}
		var hit ssa.Value
		n := 0
		for v := range fr.env {
			if _, isPhi := v.(*ssa.Phi); isPhi {
				continue
			}
			if _, isInstr := v.(ssa.Instruction); !isInstr {
				continue
			}
			if v.Pos() == pos && v.Pos() != token.NoPos {
				hit = v
				n++
			}
		}
		if n == 1 {
			env.vars[name] = fr.env[hit]
		}
	}
	if le := fr.loopEntry[li.head]; le != nil {
		ee := x.baseEnv(fr, le.st)
		for phi, v := range le.phis {
			if phi.Comment != "" {
				ee.vars[phi.Comment] = v
			}
		}
		env.entry = ee
	}
	return env
}

type loopEntryInfo struct {
	st   *State
	phis map[*ssa.Phi]Val
}

func (x *Exec) enterLoop(fr *Frame, b *ssa.BasicBlock, li *loopInfo, ins []edgeState) {
	// values of the phis on entry
	entryPhis := map[*ssa.Phi]Val{}
	for _, phi := range headPhis(b) {
		entryPhis[phi] = x.phiVal(fr, phi, b, ins)
	}
	if fr.loopEntry == nil {
		fr.loopEntry = map[*ssa.BasicBlock]*loopEntryInfo{}
	}
	fr.loopEntry[b] = &loopEntryInfo{st: x.st.clone(), phis: entryPhis}
	// 1. invariant holds on entry
	terms, clauses := x.loopInvTerms(fr, li, entryPhis, x.st)
	for i, t := range terms {
		x.oblige("inv-entry", loopDetail(li), clauseProps(clauses[i], li.spec), t, clauses[i].Text)
	}
	// 2. find the write set by scratch runs to a fixpoint
	w := map[string]bool{}
	wAll := false
	if fr.scratchDepth < 3 {
		for iter := 0; iter < 6; iter++ {
			snap := x.snap()
			saved := x.st.clone()
			savedOut := map[*ssa.BasicBlock][]edgeState{}
			for k, v := range fr.out {
				savedOut[k] = append([]edgeState{}, v...)
			}
			nrets := len(fr.rets)
			ndef := len(fr.deferred)
			if wAll {
				x.havocAll()
			}
			x.havocLoop(fr, b, w)
			si := &scratchInfo{li: li, base: map[string]*Term{}, mod: map[string]bool{}, oldTouched: map[string]bool{}, n0: x.allocN}
			for k, v := range x.st.heap {
				si.base[k] = v
			}
			prev := fr.scratch
			fr.scratch = si
			fr.scratchDepth++
			x.scratches = append(x.scratches, si)
			x.scratchRun(fr, li)
			x.scratches = x.scratches[:len(x.scratches)-1]
			fr.scratchDepth--
			fr.scratch = prev
			x.restore(snap)
			x.st = saved
			fr.out = savedOut
			fr.rets = fr.rets[:nrets]
			fr.deferred = fr.deferred[:ndef]
			grew := false
			if si.all && !wAll {
				wAll = true
				grew = true
			}
			for k := range si.mod {
				if !si.oldTouched[k] {
					continue // only objects allocated inside the loop are written: nothing visible at the head changes
				}
				if !w[k] {
					w[k] = true
					grew = true
				}
			}
			if !grew {
				break
			}
		}
	}
	// 2b. the unit's frame condition is an implicit invariant of every loop
	var wk []string
	for k := range w {
		wk = append(wk, k)
	}
	sort.Strings(wk)
	if len(x.scratches) == 0 {
		for _, k := range wk {
			if cur, ok := x.st.heap[k]; ok {
				if g := x.frameGoal(k, cur); g != nil {
					x.oblige("inv-entry", loopDetail(li)+"/frame", x.frameProps, g, "frame: only listed locations of "+k+" changed so far")
				}
			}
		}
	}
	// 3. havoc and assume the invariant
	if wAll {
		x.havocAll()
	}
	x.havocLoop(fr, b, w)
	for _, k := range wk {
		if g := x.frameGoal(k, x.st.heap[k]); g != nil {
			x.assumeHere(g)
		}
	}
	nowPhis := map[*ssa.Phi]Val{}
	for _, phi := range headPhis(b) {
		nowPhis[phi] = fr.env[phi]
	}
	terms, _ = x.loopInvTerms(fr, li, nowPhis, x.st)
	x.assumeHere(and(terms...))
	// 4. measure at the head
	snapSt := x.st.clone()
	hs := &headSnapshot{st: snapSt, wkeys: wk}
	if li.spec != nil {
		for _, cl := range li.spec.clauses("decreases") {
			env := x.loopEnv(fr, li, nowPhis, x.st)
			for _, e := range splitTop(cl.Text, ',') {
				hs.measure = append(hs.measure, x.evalInt(env, parseExpr(e, cl.Where)))
			}
		}
	}
	fr.headSnap[b] = hs
}

func loopDetail(li *loopInfo) string { return "loop" + string(rune('0'+li.ordinal)) }

func clauseProps(cl *Clause, c *Contract) []string {
	if len(cl.Props) > 0 {
		return cl.Props
	}
	if c != nil && len(c.Props) > 0 {
		return c.Props
	}
	if c != nil && c.Parent != nil && len(c.Parent.Props) > 0 {
		return c.Parent.Props // a loop contract inherits the properties of its function's contract
	}
	return safetyProps
}

// scratchRun executes the loop body once from the current (havoced) state to
// discover which heap entries it can modify. Everything emitted is rolled back.
func (x *Exec) scratchRun(fr *Frame, li *loopInfo) {
	order := topo(fr.fn)
	headSt := x.st
	for _, b := range order {
		if !li.body[b] {
			continue
		}
		var st *State
		if b == li.head {
			st = headSt.clone()
		} else {
			ins := fr.out[b]
			// only edges produced during this scratch run: those are appended after the saved ones;
			// blocks of the body have no earlier incoming states because the head dominates them.
			if len(ins) == 0 {
				continue
			}
			var sts []*State
			for _, e := range ins {
				sts = append(sts, e.st)
			}
			st = x.mergeStates(sts)
		}
		x.st = st
		if isLitFalse(st.guard) {
			continue
		}
		if b == li.head {
			x.execBlockBody(fr, b)
		} else {
			x.execBlock(fr, b)
		}
	}
}

// execBlockBody executes a block's non-phi instructions (phis already bound).
func (x *Exec) execBlockBody(fr *Frame, b *ssa.BasicBlock) {
	saved := fr.loops[b]
	delete(fr.loops, b)
	savedIns := fr.out[b]
	// phis are bound: hide them by executing with an env that already has them
	fr.skipPhis = true
	x.execBlock(fr, b)
	fr.skipPhis = false
	fr.loops[b] = saved
	fr.out[b] = savedIns
}

func (x *Exec) backEdge(fr *Frame, from, head *ssa.BasicBlock, st *State) {
	li := fr.loops[head]
	if li == nil {
		unsupported("back edge to a block that is not a loop head")
	}
	if fr.scratch != nil && fr.scratch.li == li {
		x.diffKeys(fr.scratch.base, st, fr.scratch.mod)
		return
	}
	// values the phis would take
	phiVals := map[*ssa.Phi]Val{}
	for _, phi := range headPhis(head) {
		for pi, p := range head.Preds {
			if p == from {
				phiVals[phi] = x.get(fr, phi.Edges[pi])
			}
		}
	}
	savedSt := x.st
	x.st = st
	terms, clauses := x.loopInvTerms(fr, li, phiVals, st)
	for i, t := range terms {
		x.oblige("inv-preserved", loopDetail(li), clauseProps(clauses[i], li.spec), t, clauses[i].Text)
	}
	if hs := fr.headSnap[head]; hs != nil && len(x.scratches) == 0 {
		for _, k := range hs.wkeys {
			if cur, ok := st.heap[k]; ok {
				if g := x.frameGoal(k, cur); g != nil {
					x.oblige("inv-preserved", loopDetail(li)+"/frame", x.frameProps, g, "frame: only listed locations of "+k+" change")
				}
			}
		}
	}
	if hs := fr.headSnap[head]; hs != nil && li.spec != nil && len(hs.measure) > 0 {
		var now []*Term
		for _, cl := range li.spec.clauses("decreases") {
			env := x.loopEnv(fr, li, phiVals, st)
			for _, e := range splitTop(cl.Text, ',') {
				now = append(now, x.evalInt(env, parseExpr(e, cl.Where)))
			}
		}
		x.oblige("termination", loopDetail(li), clauseProps(li.spec.clauses("decreases")[0], li.spec), lexLess(now, hs.measure), "loop measure decreases and is bounded below")
	}
	x.st = savedSt
}

// lexLess: now < before lexicographically, every component of before >= 0.
func lexLess(now, before []*Term) *Term {
	var alts []*Term
	var prefixEq []*Term
	for i := range before {
		if i >= len(now) {
			break
		}
		alts = append(alts, and(append(append([]*Term{}, prefixEq...), lt(now[i], before[i]), le(tZero, before[i]))...))
		prefixEq = append(prefixEq, eq(now[i], before[i]))
	}
	return or(alts...)
}

var singleAssignMemo = map[*ssa.Function]map[string]token.Pos{}
var singleAssignMu sync.Mutex

// singleAssignLocals: identifiers defined by exactly one `name := expr` (one name, one expression) in the function's
// source and assigned nowhere else, with the position the SSA builder gives to the value of expr.
func singleAssignLocals(fn *ssa.Function) map[string]token.Pos {
	singleAssignMu.Lock()
	defer singleAssignMu.Unlock()
	if m, ok := singleAssignMemo[fn]; ok {
		return m
	}
	out := map[string]token.Pos{}
	count := map[string]int{}
	syn := fn.Syntax()
	if syn != nil {
		ast.Inspect(syn, func(n ast.Node) bool {
			switch st := n.(type) {
			case *ast.FuncLit:
				return n == syn // do not descend into nested literals
			case *ast.AssignStmt:
				for _, l := range st.Lhs {
					if id, ok := l.(*ast.Ident); ok {
						count[id.Name]++
					}
				}
				if st.Tok == token.DEFINE && len(st.Lhs) == 1 && len(st.Rhs) == 1 {
					if id, ok := st.Lhs[0].(*ast.Ident); ok {
						switch r := st.Rhs[0].(type) {
						case *ast.CallExpr:
							out[id.Name] = r.Lparen
						case *ast.CompositeLit:
							out[id.Name] = r.Lbrace
						case *ast.UnaryExpr:
							// x := &T{...}: the allocation carries the position of the literal's brace
							if cl, ok := r.X.(*ast.CompositeLit); ok && r.Op == token.AND {
								out[id.Name] = cl.Lbrace
							}
						}
					}
				}
			case *ast.IncDecStmt:
				if id, ok := st.X.(*ast.Ident); ok {
					count[id.Name] += 2
				}
			case *ast.RangeStmt:
				for _, e := range []ast.Expr{st.Key, st.Value} {
					if id, ok := e.(*ast.Ident); ok {
						count[id.Name] += 2
					}
				}
			case *ast.UnaryExpr:
				if st.Op == token.AND {
					if id, ok := st.X.(*ast.Ident); ok {
						count[id.Name] += 2 // address taken: may be written through the pointer
					}
				}
			}
			return true
		})
	}
	for name := range out {
		if count[name] != 1 {
			delete(out, name)
		}
	}
	singleAssignMemo[fn] = out
	return out
}
