package main

import (
	"encoding/json"
	"fmt"
	"os"
	"path/filepath"
	"sort"
	"strconv"
	"strings"
	"sync"
	"time"
)

type knownFinding struct {
	Status     string // open | fixed
	Property   string
	Obligation string // exact obligation name, or
	Label      string // contract clause label, with
	Except     string // the class of entry states the finding covers (a spec expression over the callee's parameters)
	Text       string
}

// claimedCategory: level_claimed.category of the property in MANIFEST.json ("" if unreadable)
func claimedCategory(verifDir, id string) string {
	data, err := os.ReadFile(filepath.Join(verifDir, "MANIFEST.json"))
	if err != nil {
		return ""
	}
	var m struct {
		Checks []struct {
			PropertyID   string `json:"property_id"`
			LevelClaimed struct {
				Category string `json:"category"`
			} `json:"level_claimed"`
		} `json:"checks"`
	}
	if json.Unmarshal(data, &m) != nil {
		return ""
	}
	for _, c := range m.Checks {
		if c.PropertyID == id {
			return c.LevelClaimed.Category
		}
	}
	return ""
}

func loadKnown(path string) []knownFinding {
	data, err := os.ReadFile(path)
	if err != nil {
		return nil
	}
	var out []knownFinding
	for _, l := range strings.Split(string(data), "\n") {
		l = strings.TrimSpace(l)
		if l == "" || strings.HasPrefix(l, "#") {
			continue
		}
		var k knownFinding
		switch {
		case strings.HasPrefix(l, "open:"):
			k.Status = "open"
			l = strings.TrimSpace(l[5:])
		case strings.HasPrefix(l, "fixed:"):
			k.Status = "fixed"
			l = strings.TrimSpace(l[6:])
		default:
			continue
		}
		for _, f := range strings.Fields(l) {
			if strings.HasPrefix(f, "property=") {
				k.Property = f[9:]
			} else if strings.HasPrefix(f, "obligation=") {
				k.Obligation = f[11:]
			} else if strings.HasPrefix(f, "label=") {
				k.Label = f[6:]
			}
		}
		if i := strings.Index(l, "except=\""); i >= 0 {
			rest := l[i+8:]
			if j := strings.Index(rest, "\""); j >= 0 {
				k.Except = rest[:j]
			}
		}
		k.Text = l
		out = append(out, k)
	}
	return out
}

func hasProp(ps []string, id string) bool {
	for _, p := range ps {
		if p == id {
			return true
		}
	}
	return false
}

func contractMentions(c *Contract, id string) bool {
	if c == nil {
		return false
	}
	if hasProp(c.Props, id) {
		return true
	}
	for _, cl := range c.Clauses {
		if hasProp(cl.Props, id) {
			return true
		}
	}
	return false
}

func (e *Engine) unitRelevant(u *Unit, id string) bool {
	if id == "C01" || id == "C06" {
		return true // safety and "no undeclared external" obligations exist in every unit
	}
	if contractMentions(u.Own, id) || contractMentions(u.FType, id) {
		return true
	}
	for _, c := range e.loopsOf[u.Fn] {
		if contractMentions(c, id) {
			return true
		}
	}
	// callee contracts that carry the property make their callers relevant (call-pre obligations)
	return e.callsTagged(u, id)
}

type evidence struct {
	PropertyID  string         `json:"property_id"`
	Tier        string         `json:"tier"`
	Seed        int            `json:"seed"`
	Level       string         `json:"level"`
	Coverage    map[string]any `json:"coverage"`
	Assumptions []string       `json:"assumptions"`
	WallS       float64        `json:"wall_s"`
	Violations  int            `json:"violations"`
}

func cmdCheck(eng *Engine, args []string) int {
	if len(args) < 1 {
		fmt.Fprintln(os.Stderr, "usage: govc check <ID> [quick|thorough]")
		return 2
	}
	id := args[0]
	tier := "quick"
	if len(args) > 1 {
		tier = args[1]
	}
	if t := os.Getenv("VERIF_TIER"); t != "" && len(args) < 2 {
		tier = t
	}
	seed, _ := strconv.Atoi(os.Getenv("VERIF_SEED"))
	verifDir := os.Getenv("GOVC_VERIF")
	if verifDir == "" {
		verifDir = "/verif"
	}
	t0 := time.Now()
	tmp, _ := os.MkdirTemp("", "govc")
	defer os.RemoveAll(tmp)
	cfg := &SolverCfg{TimeoutS: 10, PatienceS: 60, TmpDir: tmp, NoPatience: map[string]bool{}}
	for _, k := range loadKnown(filepath.Join(verifDir, "known_findings.txt")) {
		if k.Status == "open" && k.Obligation != "" {
			cfg.NoPatience[k.Obligation] = true
		}
	}
	if tier == "thorough" {
		cfg.TimeoutS = 60
		cfg.PatienceS = 300
		cfg.All = true
	}
	anchors := loadAnchors(verifDir, id)
	anchored := func(u *Unit) bool {
		if u.Sym != nil || u.Fn == nil || (u.Own == nil && u.FType == nil) {
			return false
		}
		f := strings.TrimPrefix(eng.fset.Position(u.Fn.Pos()).Filename, eng.repo+"/")
		for _, a := range anchors {
			if ok, _ := filepath.Match(a, f); ok {
				return true
			}
		}
		return false
	}
	// an obligation counts for this property if it is tagged with it, or if it is a postcondition / frame / invariant /
	// termination obligation of a function defined in one of the property's anchor files (properties.jsonl)
	relevant := func(u *Unit, ob *Obligation) bool {
		if hasProp(ob.Props, id) {
			return true
		}
		if !anchored(u) {
			return false
		}
		return ob.Kind == "post" || ob.Kind == "frame" || ob.Kind == "termination" || strings.HasPrefix(ob.Kind, "inv-")
	}
	var units []*Unit
	for _, u := range eng.allUnits() {
		if eng.unitRelevant(u, id) || anchored(u) {
			units = append(units, u)
		}
	}
	for _, u := range eng.symUnits() {
		if hasProp(u.Sym.Props, id) {
			units = append(units, u)
		}
	}
	var wg sync.WaitGroup
	sem := make(chan struct{}, 16)
	for _, u := range units {
		wg.Add(1)
		sem <- struct{}{}
		go func(u *Unit) {
			defer wg.Done()
			defer func() { <-sem }()
			if u.Sym != nil {
				eng.translateSym(u)
			} else {
				eng.translate(u)
			}
			if u.Unsupp == "" && u.SpecFail == "" {
				solveUnit(u, cfg, func(ob *Obligation) bool { return ob.Cover || relevant(u, ob) })
			}
		}(u)
	}
	wg.Wait()

	known := loadKnown(filepath.Join(verifDir, "known_findings.txt"))
	replayDir := filepath.Join(verifDir, "replays", id)
	os.MkdirAll(replayDir, 0o755)

	nOb, nOK, nViol := 0, 0, 0
	externSites := 0
	byBackend := map[string]int{}
	solverTime := 0.0
	assumed := map[string]bool{}
	var fnNames, unsupported, samples, knownHit []string
	seenKnown := map[string]bool{}
	nKnownBounded := 0 // known findings met only by a bounded check: they do not change the level of the proved obligations
	var out strings.Builder
	violation := func(name, body string, noInput bool) {
		nViol++
		p := filepath.Join(replayDir, sanitize(strings.ReplaceAll(name, "/", "_"))+".txt")
		_ = os.WriteFile(p, []byte(body), 0o644)
		suffix := ""
		if noInput {
			suffix = " no-failing-input-found"
		}
		fmt.Fprintf(&out, "VIOLATION property=%s replay=%s%s\n", id, p, suffix)
		fmt.Fprintf(&out, "  obligation: %s\n", name)
	}
	for _, u := range units {
		tagged := 0
		if u.Script != nil {
			for _, ob := range u.Script.obs {
				if !ob.Cover && relevant(u, ob) {
					tagged++
				}
			}
		}
		if u.SpecFail != "" {
			violation(u.Name+"/contract-error", "contract does not resolve against the code (undecided):\n"+u.SpecFail+"\n", true)
			continue
		}
		if u.Unsupp != "" {
			unsupported = append(unsupported, u.Name+": "+u.Unsupp)
			violation(u.Name+"/unsupported", "function is outside the verifier's Go subset, its obligations are undecided:\n"+u.Unsupp+"\n", true)
			continue
		}
		if tagged == 0 && id != "C06" {
			continue
		}
		fnNames = append(fnNames, u.Name)
		externSites += u.ExternSites
		for _, a := range u.Assumed {
			assumed[a] = true
		}
		for _, ob := range u.Script.obs {
			if ob.Cover {
				if os.Getenv("GOVC_SLOW") != "" && ob.TimeS > 2 {
					fmt.Fprintf(os.Stderr, "SLOW %.1fs %s %s (%s)\n", ob.TimeS, ob.Result, ob.Name, ob.Solver)
				}
				if ob.Result == "unsat" {
					// vacuity guard: precondition unsatisfiable or no return reachable
					// (only a definite unsat is a vacuity failure; unknown on a quantified cover is inconclusive)
					violation(ob.Name, fmt.Sprintf("vacuity guard failed: %s is %s (expected sat)\n%s\n", ob.Goal, ob.Result, ob.Detail), true)
				}
				continue
			}
			if !relevant(u, ob) || ob.WeakOf != "" {
				if os.Getenv("GOVC_SLOW") != "" && ob.TimeS > 2 {
					fmt.Fprintf(os.Stderr, "SLOW(other) %.1fs %s %s (%s)\n", ob.TimeS, ob.Result, ob.Name, ob.Solver)
				}
				continue
			}
			nOb++
			solverTime += ob.TimeS
			if os.Getenv("GOVC_SLOW") != "" && ob.TimeS > 2 {
				fmt.Fprintf(os.Stderr, "SLOW %.1fs %s %s (%s)\n", ob.TimeS, ob.Result, ob.Name, ob.Solver)
			}
			if ob.Result == "unsat" {
				nOK++
				byBackend[ob.Solver]++
				if len(samples) < 6 && (nOb%17 == 1) {
					samples = append(samples, fmt.Sprintf("%s: %s  [%s, %s]", ob.Name, ob.Goal, ob.Solver, ob.Pos))
				}
				continue
			}
			// known finding?
			matched := false
			borrowedKnown := false
			for _, k := range known {
				byName := k.Obligation != "" && k.Obligation == ob.Name
				byClass := false
				if k.Label != "" && k.Except != "" && strings.Contains(ob.Name, "/"+k.Label+"#") {
					// the same obligation restricted to everything outside the recorded class must hold
					for _, w := range u.Script.obs {
						if w.WeakOf == ob.Name && w.Result == "unsat" {
							byClass = true
						}
					}
				}
				if k.Status == "open" && k.Property != id && !hasProp(ob.Props, id) && (byName || byClass) {
					matched = true // a known finding of another property, seen here only because the function is anchored
					borrowedKnown = true
					continue
				}
				if k.Status == "open" && k.Property == id && (byName || byClass) {
					matched = true
					if !seenKnown[k.Text] {
						seenKnown[k.Text] = true
						knownHit = append(knownHit, k.Text)
						fmt.Fprintf(&out, "KNOWN-FINDING: %s\n", k.Text)
					}
				}
			}
			if matched {
				if borrowedKnown {
					nOb--
				}
				continue
			}
			body := fmt.Sprintf("obligation: %s\nkind: %s\nfunction: %s\nsource: %s\ngoal: %s\nresult: %s (%s)\n\nsolver output:\n%s\ncounterexample (entry state of the function, from the solver model):\n%s\n",
				ob.Name, ob.Kind, ob.Func, ob.Pos, ob.Goal, ob.Result, ob.Solver, ob.Detail, ob.Model)
			if ob.queryTxt != "" {
				qp := filepath.Join(replayDir, sanitize(strings.ReplaceAll(ob.Name, "/", "_"))+".smt2")
				_ = os.WriteFile(qp, []byte(ob.queryTxt), 0o644)
				body += "query: " + qp + "\n"
			}
			replayed := false
			if u.FType != nil || (ob.Result == "sat" && ob.Model != "") || id == "C16" || id == "C03" || id == "C17" {
				if rep := tryReplay(eng, u, ob, verifDir); rep != "" {
					body += "\nreplay on the real code:\n" + rep
					replayed = strings.Contains(rep, "REPRODUCED input")
				}
			}
			violation(ob.Name, body, !replayed)
		}
	}
	nUnitOb := nOb
	// contracts whose function no longer exists under that name (renamed, turned into a method, removed): everything the
	// contract carried for this property is undecided
	for _, m := range eng.missing {
		props := append([]string{}, m.c.Props...)
		for _, cl := range m.c.Clauses {
			props = append(props, cl.Props...)
		}
		if m.c.Parent != nil {
			props = append(props, m.c.Parent.Props...)
		}
		if len(props) == 0 {
			props = safetyProps
		}
		if hasProp(props, id) || id == "C01" || id == "C06" {
			nOb++
			violation(m.c.Pkg[strings.LastIndex(m.c.Pkg, "/")+1:]+"."+m.c.Target+"/contract-target-missing", "the function this contract is written for does not exist any more under that name; its obligations are undecided:\n"+m.msg+"\n", true)
		}
	}
	// finite-domain obligations (complete evaluation of the real code)
	scanResults := append(append(eng.finiteDomain(id, tmp), eng.confinedChecks(id)...), eng.mapOrderChecks(id)...)
	// (errDynTypeChecks - "every error built in the exporter has the type castErr asserts" - is no longer an obligation: since
	// the accessors recover a panic of the conversion, a failing assertion there is an error of the export, not a violation)
	scanResults = append(scanResults, eng.recoverBoundaryChecks(id)...)
	if id == "C17" || id == "C01" {
		// a deferred recover protects its own goroutine only: the recover boundaries of C17 / C01 presuppose that the module
		// starts no goroutine (the same scan as under C06)
		for _, r := range eng.mapOrderChecks("C06") {
			if r.Name == "module/sequential#1" {
				r.Props = []string{id}
				r.Goal = "the module starts no goroutine: a panic cannot escape the deferred recover of the entry point on another goroutine"
				scanResults = append(scanResults, r)
			}
		}
	}
	scanResults = append(scanResults, eng.loopVarChecks(id)...)
	scanResults = append(scanResults, eng.quotedParamChecks(id)...)
	scanResults = append(scanResults, eng.usedTypesChecks(id)...)
	scanResults = append(scanResults, eng.layoutChecks(id)...)
	scanResults = append(scanResults, eng.quoteChecks(id)...)
	scanResults = append(scanResults, eng.descEndChecks(id)...)
	scanResults = append(scanResults, eng.corpusChecks(id, tier)...)
	scanResults = append(scanResults, eng.scanCorpusChecks(id, tier)...)
	scanResults = append(scanResults, eng.treeChecks(id)...)
	if id == "C16" {
		scanResults = append(scanResults, eng.repeatChecks(id)...)
		// determinism of what is computed: C06's obligation set, re-run under C16
		scanResults = append(scanResults, eng.mapOrderChecks("C06")...)
		for k := range eng.repeatAssumptions() {
			assumed[k] = true
		}
	}
	repeatReplay := ""
	boundedNote := ""
	var boundedChecks []string
	for _, r := range scanResults {
		nOb++
		if r.OK && strings.Contains(r.Goal, "[ASSUMED by maporder declaration") {
			// not proved: an explicit assumption of the contract files
			nOb--
			assumed["MAPORDER "+r.Name+": "+r.Goal] = true
			continue
		}
		if r.OK && strings.Contains(r.Name, "/bounded/") {
			// a bounded stand-in: reported, never counted as proved
			nOb--
			boundedChecks = append(boundedChecks, r.Name+": "+r.Goal)
			continue
		}
		if r.OK {
			nOK++
			if strings.Contains(r.Name, "/finite-domain/") {
				byBackend["finite-domain"]++
			} else {
				byBackend["ssa-scan"]++
			}
			samples = append(samples, fmt.Sprintf("%s: %s", r.Name, r.Goal))
			continue
		}
		// an open known finding recorded under exactly this obligation name
		isKnown := false
		for _, k := range known {
			if k.Status == "open" && k.Property == id && k.Obligation == r.Name {
				isKnown = true
				if !seenKnown[k.Text] {
					seenKnown[k.Text] = true
					knownHit = append(knownHit, k.Text)
					fmt.Fprintf(&out, "KNOWN-FINDING: %s\n", k.Text)
				}
			}
		}
		if isKnown {
			if strings.Contains(r.Name, "/bounded/") {
				nOb--
				nKnownBounded++
			}
			continue
		}
		// the mismatching cases ARE the failing inputs, observed on the real code
		if strings.Contains(r.Name, "/bounded/") {
			violation(r.Name, fmt.Sprintf("obligation: %s\nkind: bounded check of the real code (go test -overlay harness, nothing written to /repo)\ngoal: %s\nREPRODUCED on the real code:\n%s\n", r.Name, r.Goal, r.Detail), false)
		} else if strings.Contains(r.Name, "/finite-domain/") {
			violation(r.Name, fmt.Sprintf("obligation: %s\nkind: finite-domain\ngoal: %s\nREPRODUCED on the real code (go test -overlay harness in package directive):\n%s\n", r.Name, r.Goal, r.Detail), false)
		} else if id == "C17" {
			if openapiReplayMemo == "" {
				openapiReplayMemo = replayOpenAPI(eng)
			}
			violation(r.Name, fmt.Sprintf("obligation: %s\nkind: whole-module SSA scan\ngoal: %s\n%s\n\nreplay on the real code:\n%s", r.Name, r.Goal, r.Detail, openapiReplayMemo),
				!strings.Contains(openapiReplayMemo, "REPRODUCED input"))
		} else if id == "C16" {
			if repeatReplay == "" {
				if repeatReplayMemo == "" {
					repeatReplayMemo = replayRepeat(eng)
				}
				repeatReplay = repeatReplayMemo
			}
			violation(r.Name, fmt.Sprintf("obligation: %s\nkind: whole-module SSA scan\ngoal: %s\n%s\n\nreplay on the real code:\n%s", r.Name, r.Goal, r.Detail, repeatReplay),
				!strings.Contains(repeatReplay, "REPRODUCED input"))
		} else {
			violation(r.Name, fmt.Sprintf("obligation: %s\nkind: whole-module SSA scan\ngoal: %s\n%s\n", r.Name, r.Goal, r.Detail), true)
		}
	}
	if id == "C17" {
		if openapiReplayMemo == "" {
			openapiReplayMemo = replayOpenAPI(eng)
		}
		if strings.Contains(openapiReplayMemo, "REPRODUCED input") {
			violation("kit.JApi.ToOpenAPIJson/export-documents/bounded#1", "bounded check: OpenAPI export of documents on the real code\n"+openapiReplayMemo, false)
		} else if !strings.Contains(openapiReplayMemo, "DONE tried=") {
			violation("kit.JApi.ToOpenAPIJson/export-documents/harness#1", "bounded check did not run:\n"+openapiReplayMemo, true)
		}
		boundedNote = strings.TrimSpace(openapiReplayMemo)
	}
	if id == "C03" {
		// bounded cross-check on the real code (never counted as proved)
		if faultReplayMemo == "" {
			faultReplayMemo = replayFaults(eng)
		}
		if strings.Contains(faultReplayMemo, "REPRODUCED input") {
			violation("kit.NewJApiFromFile/single-fault-documents/bounded#1", "bounded check: single-fault documents on the real code\n"+faultReplayMemo, false)
		} else if !strings.Contains(faultReplayMemo, "DONE tried=") {
			violation("kit.NewJApiFromFile/single-fault-documents/harness#1", "bounded check did not run:\n"+faultReplayMemo, true)
		}
		boundedNote = strings.TrimSpace(faultReplayMemo)
	}
	if id == "C16" {
		// bounded cross-check on the real code (never counted as proved): every history of length 3 over the five accessors
		if repeatReplay == "" {
			repeatReplay = replayRepeat(eng)
		}
		if strings.Contains(repeatReplay, "REPRODUCED input") {
			violation("kit.JApi/repeat-histories/bounded#1", "bounded check: call histories of length 3 over the five accessors on the real code\n"+repeatReplay, false)
		} else if !strings.Contains(repeatReplay, "NOT-REPRODUCED") {
			violation("kit.JApi/repeat-histories/harness#1", "bounded check did not run:\n"+repeatReplay, true)
		}
		boundedNote = strings.TrimSpace(repeatReplay)
	}
	if nOb == 0 {
		violation("no-obligations", "no obligation was generated for this property (vacuity guard)\n", true)
	}
	if min := expectedMin(verifDir, id); nOb < min {
		violation("obligation-count", fmt.Sprintf("only %d obligations generated, at least %d expected (contracts or functions missing)\n", nOb, min), true)
	}
	sort.Strings(fnNames)
	var as []string
	for a := range assumed {
		if strings.HasPrefix(a, "TRUSTED ") {
			as = append(as, "contract of "+a[8:]+" is assumed at its call sites; its body is NOT verified (attr trusted)")
		} else if strings.HasPrefix(a, "MAPORDER ") {
			as = append(as, "map range assumed order-insensitive (not decided mechanically): "+a[9:])
		} else if strings.HasPrefix(a, "FTYPE ") {
			as = append(as, a[6:])
		} else if strings.HasPrefix(a, "AXIOM ") {
			as = append(as, "definitional axiom of an abstract predicate, "+strings.TrimSpace(a[6:]))
		} else if strings.HasPrefix(a, "GLOBALINV ") {
			as = append(as, "package-level variable initialised once and never reassigned: "+strings.TrimSpace(a[10:]))
		} else if strings.HasPrefix(a, "STDPURE ") {
			as = append(as, "standard-library function without a declared contract, assumed side-effect-free and panic-free, result unconstrained: "+a[8:])
		} else if strings.HasPrefix(a, "ASSUMESAFE ") {
			as = append(as, "absence of run-time panics in the body of "+a[11:]+" is assumed (attr assumesafe: the unit is verified for frame/postconditions only)")
		} else if strings.HasPrefix(a, "REPEAT ") {
			as = append(as, a[7:])
		} else if strings.HasPrefix(a, "ASSUME ") {
			as = append(as, "unchecked assume clause of "+a[7:])
		} else {
			as = append(as, "assumed contract of external function "+a)
		}
	}
	sort.Strings(as)
	as = append(as, standingAssumptions...)
	if len(samples) == 0 && nOb > 0 {
		samples = append(samples, "see functions_under_contract")
	}
	level := "proof"
	expl := ""
	if len(knownHit) > nKnownBounded || nViol > 0 {
		level = "other"
		expl = fmt.Sprintf("%d of %d obligations discharged; %d open known findings; %d violations", nOK, nOb, len(knownHit), nViol)
	}
	if level == "proof" && claimedCategory(verifDir, id) == "other" {
		level = "other"
		expl = fmt.Sprintf("%d of %d obligations discharged (SMT and mechanical SSA results together); the claim is a set of decided sufficient conditions and structural clauses, not the whole statement - see level_claimed in MANIFEST.json", nOK, nOb)
	}
	if id == "C16" && level == "proof" {
		level = "other"
		expl = fmt.Sprintf("frame/determinism obligations decided mechanically on the SSA of everything the five accessors reach in the module (%d results) plus %d deductive frame obligations; calls that leave the module and the cache-fill code under sync.Once are assumptions, listed", nOb-nUnitOb, nUnitOb)
	}
	if id == "C06" && level == "proof" {
		level = "other"
		expl = fmt.Sprintf("mechanical sufficient conditions on the SSA of the working tree: %d map-order/global-write results and %d external call sites with a declared contract in %d functions; assumed map ranges are listed under assumptions", nOb, externSites, len(fnNames))
	}
	ev := evidence{PropertyID: id, Tier: tier, Seed: seed, Level: level, WallS: time.Since(t0).Seconds(), Violations: nViol, Assumptions: as,
		Coverage: map[string]any{
			"obligations":              nOb,
			"discharged":               nOK,
			"checker_cmd":              "/verif/bin/govc check " + id + " " + tier,
			"trusted_base":             trustedBase,
			"functions_under_contract": fnNames,
			"by_backend":               byBackend,
			"solver_time_s":            solverTime,
			"unsupported":              unsupported,
			"known_findings":           knownHit,
			"samples":                  samples,
			"contract_files":           eng.specs.Files,
			"assume_clauses":           eng.specs.NAssume,
			"extern_entries":           len(eng.specs.Externs),
			"external_call_sites_with_declared_contract": externSites,
			"integers":                 "mathematical Int with exact wrap-around for + - ++ -- and constant *; shifts/bit operations uninterpreted",
			"explanation":              expl,
		}}
	if len(boundedChecks) > 0 {
		ev.Coverage["bounded_checks_not_counted_as_proved"] = boundedChecks
	}
	if boundedNote != "" {
		ev.Coverage["bounded_cross_check"] = "BOUNDED, not counted as proved: " + boundedNote
	}
	if expl == "" {
		delete(ev.Coverage, "explanation")
	} else {
		ev.Coverage["explanation"] = expl
	}
	os.MkdirAll(filepath.Join(verifDir, "evidence"), 0o755)
	b, _ := json.MarshalIndent(ev, "", " ")
	_ = os.WriteFile(filepath.Join(verifDir, "evidence", id+".json"), b, 0o644)
	fmt.Print(out.String())
	fmt.Printf("property %s (%s): %d obligations, %d discharged, %d known findings, %d violations, %d functions, %.1fs\n",
		id, tier, nOb, nOK, len(knownHit), nViol, len(fnNames), time.Since(t0).Seconds())
	if nViol > 0 {
		return 1
	}
	return 0
}

var trustedBase = []string{
	"go/types and golang.org/x/tools/go/ssa v0.29.0 (the SSA of /repo's working tree is taken as the meaning of the program)",
	"govc translation SSA -> SMT-LIB (/verif/govc), guarded by the must-fail selftest corpus",
	"z3 5.1.0 (z3-new), cvc5 1.0, z3 4.8.12",
}

var standingAssumptions = []string{
	"sequential semantics: sync.Mutex/Once erased, no goroutines",
	"memory exhaustion and the stack size limit are not modelled",
	"typed heap: one SMT array per (struct type, field); interior pointers exist only inside the translator",
}

// loadAnchors: the anchor files of the property (glob patterns relative to the repository), from properties.jsonl
func loadAnchors(verifDir, id string) []string {
	data, err := os.ReadFile(filepath.Join(verifDir, "properties.jsonl"))
	if err != nil {
		data, err = os.ReadFile("/verif/properties.jsonl")
		if err != nil {
			return nil
		}
	}
	for _, l := range strings.Split(string(data), "\n") {
		var p struct {
			ID      string `json:"id"`
			Anchors struct {
				Files []string `json:"files"`
			} `json:"anchors"`
		}
		if json.Unmarshal([]byte(l), &p) == nil && p.ID == id {
			return p.Anchors.Files
		}
	}
	return nil
}

func expectedMin(verifDir, id string) int {
	data, err := os.ReadFile(filepath.Join(verifDir, "expected_counts.json"))
	if err != nil {
		return 1
	}
	m := map[string]int{}
	if json.Unmarshal(data, &m) != nil {
		return 1
	}
	if v, ok := m[id]; ok {
		return v
	}
	return 1
}

// tryReplay: hook for replaying a solver model on the real code (see replay.go).
var repeatReplayMemo string
var faultReplayMemo string
var openapiReplayMemo string

func tryReplay(eng *Engine, u *Unit, ob *Obligation, verifDir string) string {
	if hasProp(ob.Props, "C16") && !hasProp(ob.Props, "C01") {
		if repeatReplayMemo == "" {
			repeatReplayMemo = replayRepeat(eng)
		}
		return repeatReplayMemo
	}
	if hasProp(ob.Props, "C17") && pkgPathOf(u.Fn) == modPath+"/catalog/ser/openapi" {
		if openapiReplayMemo == "" {
			openapiReplayMemo = replayOpenAPI(eng)
		}
		return openapiReplayMemo
	}
	if hasProp(ob.Props, "C03") && !hasProp(ob.Props, "C01") && pkgPathOf(u.Fn) != modPath+"/scanner" {
		if faultReplayMemo == "" {
			faultReplayMemo = replayFaults(eng)
		}
		return faultReplayMemo
	}
	return replayModel(eng, u, ob, verifDir)
}
