package main

import (
	"fmt"
	"os"
	"go/token"
	"go/types"
	"sort"
	"strings"

	"golang.org/x/tools/go/ssa"
)

// C16, obligation kinds "repeat-frame", "repeat-stateful", "repeat-dynamic", "repeat-cache": serialising is repeatable.
//
// The argument is a frame argument over the real code, decided mechanically on the SSA of everything the five accessors
// of kit.JApi can reach inside the module (static calls, closures, function values, interface calls resolved
// closed-world over the module's methods, and every MarshalJSON/MarshalText/String/Error method of the module, because
// encoding/json and fmt reach those by reflection). The reachable functions are split in two:
//
//   HOT  = reachable without entering a closure passed to (*sync.Once).Do; this code runs on every call;
//   FILL = reachable only through such a closure; this code runs at most once per Once object (lazy cache fill).
//
//   (1) repeat-frame: no HOT instruction writes memory that existed before the activation it belongs to: every store,
//       map update, delete, copy and append goes to memory allocated by the same activation, by a module callee that
//       returns only fresh memory, or handed down by a caller for which the same holds (interprocedural, closed world);
//   (2) repeat-stateful: no HOT instruction calls an external function declared `attr stateful` in the contract files;
//   (3) repeat-cache: the fields FILL code writes through its Once holder are written nowhere in HOT code (follows from
//       (1), reported separately so the evidence names the caches);
//   (4) determinism of what is computed (no order-sensitive map range, no write to package-level variables) is C06's
//       obligation set, which covers the whole module and is re-run under C16.
//
// From (1)-(4) each accessor is a function of the catalog's state and leaves that state as it found it, up to caches
// that are filled once, hence returns the same bytes on every call, whatever was called before. What is NOT decided and
// is listed as an assumption in the evidence: calls that leave the module (encoding/json, jsight-schema-core, ...) are
// assumed not to write module-visible state and to be repeatable unless declared stateful; FILL code is assumed to write
// only memory owned by its Once holder (the deductive frame contracts on the functions of catalog/exchange_content.go
// cover the part of that which is within the verifier's reach).

var repeatRoots = map[string]bool{"(*JApi).ToJson": true, "(*JApi).ToJsonIndent": true, "(*JApi).ToOpenAPIJson": true,
	"(*JApi).ToOpenAPIJsonIndent": true, "(*JApi).Title": true}

var reflectMethods = map[string]bool{"MarshalJSON": true, "MarshalText": true, "String": true, "Error": true}

// methods of the standard library that write through their receiver: the receiver must be fresh
var mutatingStd = map[string]bool{"(*bytes.Buffer).Write": true, "(*bytes.Buffer).WriteRune": true, "(*bytes.Buffer).WriteByte": true,
	"(*bytes.Buffer).WriteString": true, "(*bytes.Buffer).Reset": true, "(*bytes.Buffer).Truncate": true, "(*strings.Builder).WriteString": true,
	"(*strings.Builder).WriteByte": true, "(*strings.Builder).WriteRune": true, "(*strings.Builder).Write": true, "(*strings.Builder).Reset": true,
	"(*strings.Builder).Grow": true, "(*bytes.Buffer).Grow": true, "sort.Strings": true, "sort.Slice": true, "sort.SliceStable": true, "sort.Sort": true,
	"sort.Stable": true, "sort.Ints": true, "slices.Sort": true, "slices.SortFunc": true, "slices.SortStableFunc": true, "slices.Reverse": true}

type extWrite struct {
	fn   *ssa.Function
	recv ssa.Value
	name string
	pos  token.Pos
}

type retKey struct {
	fn  *ssa.Function
	idx int
}

type callSite struct {
	caller *ssa.Function
	args   []ssa.Value // aligned with callee.Params; nil entry = unknown
}

type repeatScan struct {
	e        *Engine
	hot      map[*ssa.Function]string
	fill     map[*ssa.Function]string
	order    []*ssa.Function
	fillRoot []*ssa.Function
	externs  map[string]int
	stateful []string
	dynamic  []string
	modFns   []*ssa.Function
	byMethod map[string][]*ssa.Function
	callers  map[*ssa.Function][]callSite
	openWorld map[*ssa.Function]bool // callers unknown (roots, reflection, interface dispatch, function values)
	closureOf map[*ssa.Function][]*ssa.MakeClosure
	inFill   bool
	retMemo  map[retKey]int // 0 unknown, 1 computing, 2 fresh, 3 not fresh
	contMemo map[string]int
	freshUsed map[string]bool
	extWrites []extWrite
	parMemo  map[*ssa.Parameter]int
}

func (e *Engine) newRepeatScan() *repeatScan {
	rs := &repeatScan{e: e, hot: map[*ssa.Function]string{}, fill: map[*ssa.Function]string{}, externs: map[string]int{},
		byMethod: map[string][]*ssa.Function{}, callers: map[*ssa.Function][]callSite{}, openWorld: map[*ssa.Function]bool{},
		closureOf: map[*ssa.Function][]*ssa.MakeClosure{}, retMemo: map[retKey]int{}, contMemo: map[string]int{}, freshUsed: map[string]bool{}, parMemo: map[*ssa.Parameter]int{}}
	rs.modFns = e.moduleFunctions()
	for _, fn := range rs.modFns {
		if fn.Signature.Recv() != nil && fn.Parent() == nil {
			rs.byMethod[fn.Name()] = append(rs.byMethod[fn.Name()], fn)
		}
	}
	return rs
}

func (rs *repeatScan) add(fn *ssa.Function, why string) {
	if fn == nil {
		return
	}
	if _, ok := rs.hot[fn]; ok {
		return
	}
	if rs.inFill {
		if _, ok := rs.fill[fn]; ok {
			return
		}
		rs.fill[fn] = why
	} else {
		rs.hot[fn] = why
	}
	rs.order = append(rs.order, fn)
}

func (rs *repeatScan) run() {
	for _, fn := range rs.modFns {
		if pkgPathOf(fn) == modPath+"/kit" && repeatRoots[fnDesignator(fn)] {
			rs.add(fn, "accessor")
			rs.openWorld[fn] = true
		}
		if fn.Parent() == nil && fn.Signature.Recv() != nil && reflectMethods[fn.Name()] {
			rs.add(fn, "reflection (encoding/json, fmt)")
			rs.openWorld[fn] = true
		}
	}
	rs.walk(0)
	rs.inFill = true
	n := len(rs.order)
	for _, f := range rs.fillRoot {
		rs.add(f, "closure passed to sync.Once.Do")
	}
	rs.walk(n)
}

func (rs *repeatScan) walk(from int) {
	for i := from; i < len(rs.order); i++ {
		fn := rs.order[i]
		if fn.Blocks == nil {
			continue
		}
		for _, b := range fn.Blocks {
			for _, in := range b.Instrs {
				switch in := in.(type) {
				case *ssa.MakeClosure:
					cf := in.Fn.(*ssa.Function)
					rs.closureOf[cf] = append(rs.closureOf[cf], in)
					if rs.e.onceInit(cf) && !rs.inFill {
						rs.fillRoot = append(rs.fillRoot, cf)
					} else {
						rs.add(cf, "closure of "+shortFn(fn))
					}
				case ssa.CallInstruction:
					rs.call(fn, in)
				}
				for _, op := range in.Operands(nil) {
					if op == nil || *op == nil {
						continue
					}
					if f, ok := (*op).(*ssa.Function); ok && inModuleFn(f) {
						if ci, isCall := in.(ssa.CallInstruction); isCall && ci.Common().Value == *op {
							continue
						}
						if _, isMC := in.(*ssa.MakeClosure); isMC {
							continue
						}
						if rs.e.onceInit(f) && !rs.inFill {
							rs.fillRoot = append(rs.fillRoot, f)
							continue
						}
						rs.add(f, "function value in "+shortFn(fn))
						rs.openWorld[f] = true
					}
				}
			}
		}
	}
}

func (rs *repeatScan) call(fn *ssa.Function, in ssa.CallInstruction) {
	c := in.Common()
	if _, ok := c.Value.(*ssa.Builtin); ok {
		return
	}
	if callee := c.StaticCallee(); callee != nil {
		if inModuleFn(callee) {
			rs.add(callee, "called by "+shortFn(fn))
			rs.callers[callee] = append(rs.callers[callee], callSite{fn, c.Args})
			return
		}
		name := callee.String()
		if callee.Origin() != nil {
			name = callee.Origin().String()
		}
		if mutatingStd[name] && len(c.Args) > 0 && !rs.inFill {
			rs.extWrites = append(rs.extWrites, extWrite{fn, c.Args[0], name, in.Pos()})
		}
		if ec := rs.e.specs.Externs[name]; ec != nil && ec.Attrs["stateful"] && !rs.inFill {
			rs.stateful = append(rs.stateful, fmt.Sprintf("%s calls the stateful external %s at %s", shortFn(fn), name, rs.e.pos(in.Pos())))
		}
		rs.externs[name]++
		return
	}
	if c.IsInvoke() {
		it, _ := c.Value.Type().Underlying().(*types.Interface)
		for _, m := range rs.byMethod[c.Method.Name()] {
			rt := m.Signature.Recv().Type()
			if it == nil || types.Implements(rt, it) {
				rs.add(m, "interface call "+c.Method.Name()+" in "+shortFn(fn))
				args := append([]ssa.Value{c.Value}, c.Args...)
				rs.callers[m] = append(rs.callers[m], callSite{fn, args})
			}
		}
		full := "(" + types.TypeString(c.Value.Type(), qual) + ")." + c.Method.Name()
		if ec := rs.e.specs.Externs[full]; ec != nil && ec.Attrs["stateful"] && !rs.inFill {
			rs.stateful = append(rs.stateful, fmt.Sprintf("%s calls the stateful external %s at %s", shortFn(fn), full, rs.e.pos(in.Pos())))
		}
		rs.externs[full+" (interface)"]++
		return
	}
	switch v := c.Value.(type) {
	case *ssa.Parameter, *ssa.FreeVar:
		// a function handed down by a caller: closures and function values are added where they are created
		return
	case *ssa.MakeClosure:
		cf := v.Fn.(*ssa.Function)
		rs.callers[cf] = append(rs.callers[cf], callSite{fn, c.Args})
		return
	}
	if !rs.inFill {
		rs.dynamic = append(rs.dynamic, fmt.Sprintf("%s calls a function value of type %s that is neither a parameter nor a closure, at %s", shortFn(fn), typeKey(c.Value.Type()), rs.e.pos(in.Pos())))
	}
}

// ---------------------------------------------------------------------------------------------------------------------
// freshness

// fresh: v is (a pointer into) memory allocated during the activation of fn it belongs to, or during a caller's
// activation that handed it down and for which the same holds.
func (rs *repeatScan) fresh(v ssa.Value, seen map[ssa.Value]bool) bool {
	if seen[v] {
		return true
	}
	seen[v] = true
	switch a := v.(type) {
	case *ssa.Alloc, *ssa.MakeMap, *ssa.MakeSlice, *ssa.MakeChan, *ssa.MakeClosure:
		return true
	case *ssa.FieldAddr:
		return rs.fresh(a.X, seen)
	case *ssa.IndexAddr:
		return rs.fresh(a.X, seen)
	case *ssa.Slice:
		return rs.fresh(a.X, seen)
	case *ssa.Phi:
		for _, e := range a.Edges {
			if !rs.fresh(e, seen) {
				return false
			}
		}
		return true
	case *ssa.Const:
		return a.IsNil()
	case *ssa.ChangeType:
		return rs.fresh(a.X, seen)
	case *ssa.Convert:
		// string -> []byte / []rune conversions allocate; pointer conversions do not occur in the module
		_, isSlice := a.Type().Underlying().(*types.Slice)
		return isSlice
	case *ssa.Call:
		if bi, ok := a.Call.Value.(*ssa.Builtin); ok {
			if bi.Name() == "append" {
				return rs.fresh(a.Call.Args[0], seen)
			}
			return false
		}
		if callee := a.Call.StaticCallee(); callee != nil && inModuleFn(callee) && callee.Signature.Results().Len() == 1 {
			return rs.returnsFreshAt(callee, 0)
		}
		if a.Call.IsInvoke() && a.Call.Signature().Results().Len() == 1 {
			return rs.invokeFresh(a.Common())
		}
		return rs.externFresh(a.Common())
	case *ssa.UnOp:
		if a.Op != token.MUL {
			return false
		}
		// the value of a local variable (possibly captured by closures) that only ever holds fresh values
		if al := rs.varOf(a.X); al != nil {
			return rs.varHoldsFresh(al, seen)
		}
		// a field of an exporter-local struct (see fieldContentFresh)
		if fa, ok := a.X.(*ssa.FieldAddr); ok {
			if pt, _ := fa.X.Type().Underlying().(*types.Pointer); pt != nil && rs.fieldContentFresh(pt.Elem(), fa.Field) {
				return true
			}
		}
		// a field of a local struct variable that only ever holds fresh values
		if fa, ok := a.X.(*ssa.FieldAddr); ok {
			if al, ok := fa.X.(*ssa.Alloc); ok {
				return rs.fieldHoldsFresh(al, fa.Field, seen)
			}
		}
		// an element of a fresh slice/array: fresh if nothing but fresh values is ever put into such containers
		if ia, ok := a.X.(*ssa.IndexAddr); ok {
			return rs.fresh(ia.X, seen) && rs.elemContentFresh(a.Type())
		}
		return false
	case *ssa.Lookup:
		if _, isMap := a.X.Type().Underlying().(*types.Map); isMap && !a.CommaOk {
			return rs.fresh(a.X, seen) && rs.mapContentFresh(a.X.Type())
		}
		return false
	case *ssa.Extract:
		switch t := a.Tuple.(type) {
		case *ssa.Lookup:
			if _, isMap := t.X.Type().Underlying().(*types.Map); isMap && a.Index == 0 {
				return rs.fresh(t.X, seen) && rs.mapContentFresh(t.X.Type())
			}
		case *ssa.Next:
			if r, ok := t.Iter.(*ssa.Range); ok && a.Index == 2 {
				if _, isMap := r.X.Type().Underlying().(*types.Map); isMap {
					return rs.fresh(r.X, seen) && rs.mapContentFresh(r.X.Type())
				}
			}
		case *ssa.Call:
			if callee := t.Call.StaticCallee(); callee != nil && inModuleFn(callee) {
				return rs.returnsFreshAt(callee, a.Index)
			}
			if rs.externFresh(t.Common()) {
				return true
			}
		}
		return false
	case *ssa.Field:
		return rs.fieldContentFresh(a.X.Type(), a.Field)
	case *ssa.MakeInterface:
		return rs.fresh(a.X, seen)
	case *ssa.TypeAssert:
		return rs.fresh(a.X, seen)
	case *ssa.Parameter:
		return rs.paramFresh(a)
	case *ssa.FreeVar:
		// the address of a variable of an enclosing activation
		return rs.varOf(a) != nil
	}
	return false
}

// varOf: v is the address of a local variable (an Alloc, directly or as the binding of a free variable).
func (rs *repeatScan) varOf(v ssa.Value) *ssa.Alloc {
	switch a := v.(type) {
	case *ssa.Alloc:
		return a
	case *ssa.FreeVar:
		fn := a.Parent()
		idx := -1
		for i, fv := range fn.FreeVars {
			if fv == a {
				idx = i
			}
		}
		mcs := rs.closureOf[fn]
		if idx < 0 || len(mcs) == 0 {
			return nil
		}
		var res *ssa.Alloc
		for _, mc := range mcs {
			al := rs.varOf(mc.Bindings[idx])
			if al == nil || (res != nil && res != al) {
				return nil
			}
			res = al
		}
		return res
	}
	return nil
}

// varHoldsFresh: every store into the variable (from its own function and from closures that capture it) stores a fresh
// value, and the address is used only for loads, stores and captures.
func (rs *repeatScan) varHoldsFresh(al *ssa.Alloc, seen map[ssa.Value]bool) bool {
	var check func(addr ssa.Value) bool
	check = func(addr ssa.Value) bool {
		refs := addr.Referrers()
		if refs == nil {
			return false
		}
		for _, r := range *refs {
			switch r := r.(type) {
			case *ssa.Store:
				if r.Addr != addr {
					return false
				}
				if !rs.fresh(r.Val, seen) {
					return false
				}
			case *ssa.UnOp, *ssa.DebugRef, *ssa.Return:
			case *ssa.MakeClosure:
				cf := r.Fn.(*ssa.Function)
				for i, b := range r.Bindings {
					if b == addr {
						if !check(cf.FreeVars[i]) {
							return false
						}
					}
				}
			default:
				return false
			}
		}
		return true
	}
	return check(al)
}

func (rs *repeatScan) returnsFreshAt(fn *ssa.Function, idx int) bool {
	key := retKey{fn, idx}
	switch rs.retMemo[key] {
	case 1, 2:
		return true // optimistic on recursion
	case 3:
		return false
	}
	rs.retMemo[key] = 1
	ok := fn.Blocks != nil
	for _, b := range fn.Blocks {
		for _, in := range b.Instrs {
			if r, isRet := in.(*ssa.Return); isRet && idx < len(r.Results) {
				if !rs.fresh(r.Results[idx], map[ssa.Value]bool{}) {
					ok = false
					if os.Getenv("GOVC_WHYNOTFRESH") != "" {
						fmt.Fprintf(os.Stderr, "not fresh: result %d of %s: %s = %v\n", idx, shortFn(fn), r.Results[idx].Name(), r.Results[idx])
					}
				}
			}
		}
	}
	if ok {
		rs.retMemo[key] = 2
	} else {
		rs.retMemo[key] = 3
	}
	return ok
}

// invokeFresh: every module method the interface call can reach returns fresh memory, and - unless the method is
// unexported, so that only module types can implement it - the interface method is declared `attr fresh`.
func (rs *repeatScan) invokeFresh(c *ssa.CallCommon) bool {
	it, _ := c.Value.Type().Underlying().(*types.Interface)
	n := 0
	for _, m := range rs.byMethod[c.Method.Name()] {
		if it == nil || types.Implements(m.Signature.Recv().Type(), it) {
			n++
			if !rs.returnsFreshAt(m, 0) {
				return false
			}
		}
	}
	if !c.Method.Exported() && n > 0 {
		return true
	}
	return rs.externFresh(c)
}

// externFresh: the external callee is declared `attr fresh` in the contract files (its results are newly allocated; an
// assumption about the dependency, listed in the evidence).
func (rs *repeatScan) externFresh(c *ssa.CallCommon) bool {
	name := ""
	if callee := c.StaticCallee(); callee != nil {
		name = callee.String()
		if callee.Origin() != nil {
			name = callee.Origin().String()
		}
	} else if c.IsInvoke() {
		name = "(" + types.TypeString(c.Value.Type(), qual) + ")." + c.Method.Name()
	}
	if ec := rs.e.specs.Externs[name]; ec != nil && ec.Attrs["fresh"] {
		rs.freshUsed[name] = true
		return true
	}
	return false
}

// fieldHoldsFresh: field f of the local struct variable only ever receives fresh values, and the variable's address is
// used only to address its fields and to load it.
func (rs *repeatScan) fieldHoldsFresh(al *ssa.Alloc, f int, seen map[ssa.Value]bool) bool {
	refs := al.Referrers()
	if refs == nil {
		return false
	}
	for _, r := range *refs {
		switch r := r.(type) {
		case *ssa.FieldAddr:
			if r.Field != f {
				continue
			}
			fr := r.Referrers()
			if fr == nil {
				return false
			}
			for _, u := range *fr {
				switch u := u.(type) {
				case *ssa.Store:
					if u.Addr != ssa.Value(r) || !rs.fresh(u.Val, seen) {
						return false
					}
				case *ssa.UnOp, *ssa.DebugRef:
				default:
					return false
				}
			}
		case *ssa.UnOp, *ssa.DebugRef:
		case *ssa.Store:
			if r.Addr != ssa.Value(al) {
				return false
			}
			// whole-struct assignment: only the zero value / composite of fresh values is accepted
			if !rs.fresh(r.Val, seen) {
				return false
			}
		default:
			return false
		}
	}
	return true
}

// fieldContentFresh: T is a struct type declared by the OpenAPI exporter package itself. Such objects exist only while one
// export runs (the package keeps no package-level state - obligation repeat-exporter-stateless - and the accessors return
// bytes), so a field of T holds a fresh value if every store into that field, anywhere in the reachable code, stores one.
func (rs *repeatScan) fieldContentFresh(t types.Type, f int) bool {
	nt, ok := t.(*types.Named)
	if !ok || nt.Obj().Pkg() == nil || nt.Obj().Pkg().Path() != modPath+"/catalog/ser/openapi" {
		return false
	}
	st, ok := nt.Underlying().(*types.Struct)
	if !ok || f >= st.NumFields() {
		return false
	}
	key := fmt.Sprintf("field:%s.%d", typeKey(t), f)
	switch rs.contMemo[key] {
	case 1, 2:
		return true
	case 3:
		return false
	}
	rs.contMemo[key] = 1
	okAll := true
	for _, fn := range rs.order {
		for _, b := range fn.Blocks {
			for _, in := range b.Instrs {
				if stI, isSt := in.(*ssa.Store); isSt {
					if fa, isFA := stI.Addr.(*ssa.FieldAddr); isFA && fa.Field == f {
						if pt, _ := fa.X.Type().Underlying().(*types.Pointer); pt != nil && types.Identical(pt.Elem(), t) {
							if !rs.fresh(stI.Val, map[ssa.Value]bool{}) {
								okAll = false
							}
						}
					}
					// whole-struct stores of T values copy fields from another T value: covered because that value's
					// fields obey the same rule (closed under copying)
				}
			}
		}
	}
	if okAll {
		rs.contMemo[key] = 2
	} else {
		rs.contMemo[key] = 3
	}
	return okAll
}

func bearsPointers(t types.Type, depth int) bool {
	if depth > 6 {
		return true
	}
	switch u := t.Underlying().(type) {
	case *types.Basic:
		return u.Kind() == types.UnsafePointer
	case *types.Struct:
		for i := 0; i < u.NumFields(); i++ {
			if bearsPointers(u.Field(i).Type(), depth+1) {
				return true
			}
		}
		return false
	case *types.Array:
		return bearsPointers(u.Elem(), depth+1)
	}
	return true
}

func pointerLike(t types.Type) bool {
	switch t.Underlying().(type) {
	case *types.Pointer, *types.Slice, *types.Map, *types.Interface, *types.Chan, *types.Signature:
		return true
	}
	return false
}

// mapContentFresh: every map update on a map of this type, anywhere in the reachable code, stores a fresh value.
func (rs *repeatScan) mapContentFresh(mt types.Type) bool {
	key := "map:" + typeKey(mt)
	switch rs.contMemo[key] {
	case 1, 2:
		return true
	case 3:
		return false
	}
	rs.contMemo[key] = 1
	ok := true
	for _, fn := range rs.order {
		for _, b := range fn.Blocks {
			for _, in := range b.Instrs {
				if mu, isMU := in.(*ssa.MapUpdate); isMU && types.Identical(mu.Map.Type(), mt) {
					if pointerLike(mu.Value.Type()) && !rs.fresh(mu.Value, map[ssa.Value]bool{}) {
						ok = false
					}
				}
			}
		}
	}
	if ok {
		rs.contMemo[key] = 2
	} else {
		rs.contMemo[key] = 3
	}
	return ok
}

// elemContentFresh: every store into an array/slice element of this type, and every append of a whole slice of this
// element type, anywhere in the reachable code, stores fresh values.
func (rs *repeatScan) elemContentFresh(et types.Type) bool {
	if !pointerLike(et) {
		return false
	}
	key := "elem:" + typeKey(et)
	switch rs.contMemo[key] {
	case 1, 2:
		return true
	case 3:
		return false
	}
	rs.contMemo[key] = 1
	ok := true
	for _, fn := range rs.order {
		for _, b := range fn.Blocks {
			for _, in := range b.Instrs {
				switch in := in.(type) {
				case *ssa.Store:
					if _, isIA := in.Addr.(*ssa.IndexAddr); isIA && types.Identical(in.Val.Type(), et) {
						if !rs.fresh(in.Val, map[ssa.Value]bool{}) {
							ok = false
						}
					}
				case *ssa.Call:
					if bi, isB := in.Call.Value.(*ssa.Builtin); isB && (bi.Name() == "append" || bi.Name() == "copy") && len(in.Call.Args) == 2 {
						if sl, isS := in.Call.Args[1].Type().Underlying().(*types.Slice); isS && types.Identical(sl.Elem(), et) {
							src := in.Call.Args[1]
							if !(rs.fresh(src, map[ssa.Value]bool{}) ) {
								ok = false
							}
						}
					}
				}
			}
		}
	}
	if ok {
		rs.contMemo[key] = 2
	} else {
		rs.contMemo[key] = 3
	}
	return ok
}

func (rs *repeatScan) paramFresh(p *ssa.Parameter) bool {
	switch rs.parMemo[p] {
	case 1, 2:
		return true
	case 3:
		return false
	}
	fn := p.Parent()
	rs.parMemo[p] = 1
	idx := -1
	for i, q := range fn.Params {
		if q == p {
			idx = i
		}
	}
	ok := idx >= 0 && !rs.openWorld[fn] && len(rs.callers[fn]) > 0
	if ok {
		for _, cs := range rs.callers[fn] {
			if idx >= len(cs.args) || cs.args[idx] == nil || !rs.fresh(cs.args[idx], map[ssa.Value]bool{}) {
				ok = false
				if os.Getenv("GOVC_WHYNOTFRESH") != "" && idx < len(cs.args) && cs.args[idx] != nil {
					fmt.Fprintf(os.Stderr, "not fresh: parameter %s of %s: argument %s = %v in %s\n", p.Name(), shortFn(fn), cs.args[idx].Name(), cs.args[idx], shortFn(cs.caller))
				}
				break
			}
		}
	}
	if ok {
		rs.parMemo[p] = 2
	} else {
		rs.parMemo[p] = 3
	}
	return ok
}

// forgetPositive drops every memoised "fresh" fact, keeps the refuted ones, and returns how many are refuted.
func (rs *repeatScan) forgetPositive() int {
	n := 0
	for k, v := range rs.retMemo {
		if v == 3 {
			n++
		} else {
			delete(rs.retMemo, k)
		}
	}
	for k, v := range rs.parMemo {
		if v == 3 {
			n++
		} else {
			delete(rs.parMemo, k)
		}
	}
	for k, v := range rs.contMemo {
		if v == 3 {
			n++
		} else {
			delete(rs.contMemo, k)
		}
	}
	return n
}

type repeatWrite struct {
	Fn    *ssa.Function
	What  string
	Field string
	Pos   token.Pos
}

func (rs *repeatScan) writesOf(fn *ssa.Function) []repeatWrite {
	var out []repeatWrite
	if fn.Blocks == nil {
		return nil
	}
	for _, w := range rs.extWrites {
		if w.fn == fn && !rs.fresh(w.recv, map[ssa.Value]bool{}) {
			out = append(out, repeatWrite{fn, w.name + " on " + describeAddr(w.recv), "", w.pos})
		}
	}
	nf := func(v ssa.Value) bool { return !rs.fresh(v, map[ssa.Value]bool{}) }
	for _, b := range fn.Blocks {
		for _, in := range b.Instrs {
			switch in := in.(type) {
			case *ssa.Store:
				if g := globalOf(in.Addr); g != nil {
					out = append(out, repeatWrite{fn, "store to package-level variable " + g.Name(), "", in.Pos()})
				} else if nf(in.Addr) {
					out = append(out, repeatWrite{fn, "store through " + describeAddr(in.Addr), fieldOf(in.Addr), in.Pos()})
				}
			case *ssa.MapUpdate:
				if nf(in.Map) {
					out = append(out, repeatWrite{fn, "map update on " + describeAddr(in.Map), fieldOf(in.Map), in.Pos()})
				}
			case *ssa.Go:
				out = append(out, repeatWrite{fn, "go statement", "", in.Pos()})
			case *ssa.Send:
				out = append(out, repeatWrite{fn, "channel send", "", in.Pos()})
			case *ssa.Call:
				if bi, ok := in.Call.Value.(*ssa.Builtin); ok {
					switch bi.Name() {
					case "delete", "copy", "clear":
						if nf(in.Call.Args[0]) {
							out = append(out, repeatWrite{fn, bi.Name() + " on " + describeAddr(in.Call.Args[0]), fieldOf(in.Call.Args[0]), in.Pos()})
						}
					case "append":
						if nf(in.Call.Args[0]) {
							out = append(out, repeatWrite{fn, "append to " + describeAddr(in.Call.Args[0]) + " (may write into the spare capacity of memory that existed before)", fieldOf(in.Call.Args[0]), in.Pos()})
						}
					}
				}
			}
		}
	}
	return out
}

func fieldOf(v ssa.Value) string {
	for {
		switch a := v.(type) {
		case *ssa.FieldAddr:
			if pt, _ := a.X.Type().Underlying().(*types.Pointer); pt != nil {
				if st, ok := pt.Elem().Underlying().(*types.Struct); ok {
					return typeKey(pt.Elem()) + "." + st.Field(a.Field).Name()
				}
			}
			return ""
		case *ssa.IndexAddr:
			v = a.X
		case *ssa.UnOp:
			v = a.X
		default:
			return ""
		}
	}
}

func describeAddr(v ssa.Value) string {
	switch a := v.(type) {
	case *ssa.FieldAddr:
		if f := fieldOf(a); f != "" {
			return "field " + f
		}
		return "a field"
	case *ssa.IndexAddr:
		return "an element of " + describeAddr(a.X)
	case *ssa.UnOp:
		return "the value of " + describeAddr(a.X)
	case *ssa.Parameter:
		return "parameter " + a.Name()
	case *ssa.FreeVar:
		return "captured variable " + a.Name()
	case *ssa.Phi:
		return "local " + a.Comment
	case *ssa.Alloc:
		return "local " + a.Comment
	}
	return strings.TrimSpace(fmt.Sprintf("%s %s", v.Name(), typeKey(v.Type())))
}

func sortedFns(m map[*ssa.Function]string) []*ssa.Function {
	var fns []*ssa.Function
	for fn := range m {
		fns = append(fns, fn)
	}
	sort.Slice(fns, func(i, j int) bool { return fns[i].String() < fns[j].String() })
	return fns
}

func (e *Engine) repeatChecks(id string) []fdResult {
	if id != "C16" {
		return nil
	}
	rs := e.newRepeatScan()
	rs.run()
	var out []fdResult
	props := []string{"C16"}
	nRoots := 0
	for fn, why := range rs.hot {
		if why == "accessor" {
			nRoots++
		}
		_ = fn
	}
	if nRoots != len(repeatRoots) {
		out = append(out, fdResult{Name: "kit.JApi/repeat-roots#1", Props: props, Goal: "the five accessors of kit.JApi are found", OK: false,
			Detail: fmt.Sprintf("found %d of %d accessors (ToJson, ToJsonIndent, ToOpenAPIJson, ToOpenAPIJsonIndent, Title)", nRoots, len(repeatRoots))})
	}
	// The freshness facts are a greatest fixpoint: a fact assumed while it is being computed (recursion) may have been used
	// by another fact that was memoised as true. Recompute with the refuted facts kept until no new fact is refuted.
	for prev := -1; ; {
		for _, fn := range sortedFns(rs.hot) {
			rs.writesOf(fn)
		}
		for _, fn := range sortedFns(rs.fill) {
			rs.writesOf(fn)
		}
		n := rs.forgetPositive()
		if n == prev {
			break
		}
		prev = n
	}
	// (1) one obligation per hot function
	for _, fn := range sortedFns(rs.hot) {
		ws := rs.writesOf(fn)
		res := fdResult{Name: shortFn(fn) + "/repeat-frame#1", Props: props,
			Goal: "writes only memory allocated during the call (reached as: " + rs.hot[fn] + ")", OK: len(ws) == 0}
		var lines []string
		for _, w := range ws {
			lines = append(lines, fmt.Sprintf("%s at %s", w.What, e.pos(w.Pos)))
		}
		res.Detail = strings.Join(lines, "\n")
		out = append(out, res)
	}
	// (2) stateful externals
	res := fdResult{Name: "kit.JApi/repeat-stateful#1", Props: props, Goal: "no stateful external is called outside a sync.Once cache fill", OK: len(rs.stateful) == 0,
		Detail: strings.Join(rs.stateful, "\n")}
	out = append(out, res)
	nStateful := 0
	for _, c := range e.specs.Externs {
		if c.Attrs["stateful"] {
			nStateful++
		}
	}
	if nStateful == 0 {
		out = append(out, fdResult{Name: "kit.JApi/repeat-stateful/declared#1", Props: props, Goal: "the stateful externals are declared", OK: false,
			Detail: "no extern contract carries `attr stateful` (the regex example generator must)"})
	}
	res = fdResult{Name: "kit.JApi/repeat-dynamic#1", Props: props, Goal: "every call of a function value is resolved", OK: len(rs.dynamic) == 0,
		Detail: strings.Join(rs.dynamic, "\n")}
	out = append(out, res)
	// the exporter package keeps no state between calls
	var globals []string
	if pkg := e.pkgs[modPath+"/catalog/ser/openapi"]; pkg != nil {
		for name, m := range pkg.Members {
			if g, isG := m.(*ssa.Global); isG {
				if pt, _ := g.Type().(*types.Pointer); pt != nil && bearsPointers(pt.Elem(), 0) {
					globals = append(globals, name+" "+typeKey(pt.Elem()))
				}
			}
		}
	}
	sort.Strings(globals)
	out = append(out, fdResult{Name: "catalog/ser/openapi/repeat-exporter-stateless#1", Props: props,
		Goal: "the OpenAPI exporter package has no package-level variable that can hold a reference", OK: len(globals) == 0 && e.pkgs[modPath+"/catalog/ser/openapi"] != nil,
		Detail: strings.Join(globals, "\n")})
	// (3) caches: fields written by FILL code; none of them is written by HOT code (by (1)); report which
	cache := map[string]bool{}
	for _, fn := range sortedFns(rs.fill) {
		for _, w := range rs.writesOf(fn) {
			if w.Field != "" {
				cache[w.Field] = true
			}
		}
	}
	var cf []string
	for f := range cache {
		cf = append(cf, f)
	}
	sort.Strings(cf)
	var clash []string
	for _, fn := range sortedFns(rs.hot) {
		for _, w := range rs.writesOf(fn) {
			if cache[w.Field] {
				clash = append(clash, fmt.Sprintf("%s writes cache field %s at %s", shortFn(fn), w.Field, e.pos(w.Pos)))
			}
		}
	}
	// (5) what a cache fill stores in its holder must not alias memory someone else may reuse: a pointer-like value
	// stored into a field of a pre-existing object by FILL code is fresh (allocated by the fill, or returned by an external
	// declared `attr fresh`)
	var alias []string
	for _, fn := range sortedFns(rs.fill) {
		if fn.Blocks == nil {
			continue
		}
		for _, b := range fn.Blocks {
			for _, in := range b.Instrs {
				st, ok := in.(*ssa.Store)
				if !ok || fieldOf(st.Addr) == "" || rs.fresh(st.Addr, map[ssa.Value]bool{}) {
					continue
				}
				switch st.Val.Type().Underlying().(type) {
				case *types.Slice, *types.Pointer, *types.Map:
				default:
					continue
				}
				if c, isC := st.Val.(*ssa.Const); isC && c.IsNil() {
					continue
				}
				if selfAppend(st) {
					continue // field = append(field, ...): grows the holder's own slice
				}
				if !rs.fresh(st.Val, map[ssa.Value]bool{}) {
					alias = append(alias, fmt.Sprintf("%s caches in %s a value that is not known to be newly allocated (%s) at %s", shortFn(fn), fieldOf(st.Addr), describeAddr(st.Val), e.pos(st.Pos())))
				}
			}
		}
	}
	out = append(out, fdResult{Name: "kit.JApi/repeat-cache-alias#1", Props: props,
		Goal: "a value cached under sync.Once is newly allocated memory (not a buffer the dependency may reuse)", OK: len(alias) == 0, Detail: strings.Join(alias, "\n")})
	out = append(out, fdResult{Name: "kit.JApi/repeat-cache#1", Props: props,
		Goal: fmt.Sprintf("fields filled under sync.Once (%s; %d cache-fill functions) are written by no code that runs on every call", strings.Join(cf, ", "), len(rs.fill)),
		OK: len(clash) == 0 && len(rs.fillRoot) > 0, Detail: strings.Join(clash, "\n")})
	e.repeatInfo = rs
	return out
}

func cmdRepeat(e *Engine) {
	for _, r := range e.repeatChecks("C16") {
		st := "ok  "
		if !r.OK {
			st = "FAIL"
		}
		fmt.Printf("%s %s: %s\n", st, r.Name, r.Goal)
		if r.Detail != "" {
			fmt.Println("      " + strings.ReplaceAll(r.Detail, "\n", "\n      "))
		}
	}
	rs := e.repeatInfo
	fmt.Printf("hot=%d fill=%d fillRoots=%d\n", len(rs.hot), len(rs.fill), len(rs.fillRoot))
	for _, fn := range sortedFns(rs.fill) {
		fmt.Printf("FILL %s (%s)\n", shortFn(fn), rs.fill[fn])
	}
	var ex []string
	for k, n := range rs.externs {
		ex = append(ex, fmt.Sprintf("%s x%d", k, n))
	}
	sort.Strings(ex)
	for _, x := range ex {
		fmt.Printf("EXTERN %s\n", x)
	}
}

// repeatAssumptions: what the C16 scan does not decide.
func (e *Engine) repeatAssumptions() map[string]bool {
	out := map[string]bool{}
	rs := e.repeatInfo
	if rs == nil {
		return out
	}
	var ex []string
	for k := range rs.externs {
		if strings.Contains(k, modPath) && strings.HasSuffix(k, "(interface)") {
			continue // interface of the module: its module implementations are in the reachable set
		}
		ex = append(ex, k)
	}
	sort.Strings(ex)
	out["REPEAT calls that leave the module are assumed to write no module-visible state and to return the same result for the same arguments and state (not decided): "+strings.Join(ex, "; ")] = true
	var fr []string
	for k := range rs.freshUsed {
		fr = append(fr, k)
	}
	sort.Strings(fr)
	if len(fr) > 0 {
		out["REPEAT results of these external functions are assumed newly allocated by every call (attr fresh): "+strings.Join(fr, "; ")] = true
	}
	var fl []string
	for _, fn := range sortedFns(rs.fill) {
		fl = append(fl, shortFn(fn))
	}
	out["REPEAT cache-fill code that runs under sync.Once is assumed to write only memory owned by its Once holder, except where a deductive frame contract covers it: "+strings.Join(fl, "; ")] = true
	out["REPEAT sync.Once runs its function at most once and later calls see its writes (semantics of the standard library, not modelled)"] = true
	return out
}

// selfAppend: `x.f = append(x.f, ...)`
func selfAppend(st *ssa.Store) bool {
	c, ok := st.Val.(*ssa.Call)
	if !ok {
		return false
	}
	bi, ok := c.Call.Value.(*ssa.Builtin)
	if !ok || bi.Name() != "append" || len(c.Call.Args) == 0 {
		return false
	}
	ld, ok := c.Call.Args[0].(*ssa.UnOp)
	if !ok {
		return false
	}
	return sameAddr(ld.X, st.Addr, 0)
}

// sameAddr: the two address expressions are syntactically the same path (x.f.g read twice without a write in between is
// what the builder emits for `x.f.g = append(x.f.g, ...)`)
func sameAddr(a, b ssa.Value, depth int) bool {
	if a == b {
		return true
	}
	if depth > 6 {
		return false
	}
	switch x := a.(type) {
	case *ssa.FieldAddr:
		y, ok := b.(*ssa.FieldAddr)
		return ok && x.Field == y.Field && sameAddr(x.X, y.X, depth+1)
	case *ssa.UnOp:
		y, ok := b.(*ssa.UnOp)
		return ok && x.Op == y.Op && sameAddr(x.X, y.X, depth+1)
	}
	return false
}
