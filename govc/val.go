package main

import (
	"fmt"
	"os"
	"runtime/debug"
	"go/types"
	"strings"

	"golang.org/x/tools/go/ssa"
)

// Val is a translator-level symbolic value. Scalars carry one SMT term;
// aggregates are trees of scalars (never SMT datatypes).
type Val interface{ Type() types.Type }

// Scalar: bool, integers, strings, map references, channel (unsupported).
type Scalar struct {
	T types.Type
	t *Term
}

func (s *Scalar) Type() types.Type { return s.T }

// PtrV: pointer. Path empty and Kind==PObj: a first-class object reference
// (SMT Int). Otherwise an interior pointer that exists only in the translator.
type PtrKind int

const (
	PObj  PtrKind = iota // object (struct or cell) reference Base, then Path of field indices
	PElem                // element Idx (absolute) of backing array Base, then Path
	PGlobal
	PArr // pointer to a fixed-size array allocated as a backing store (varargs): Base = array ref
)

type PtrV struct {
	T      types.Type // the pointer type (*X)
	Kind   PtrKind
	Base   *Term // object reference / backing array reference
	Idx    *Term // PElem only
	Root   types.Type // type of the object at Base (PObj), element type (PElem), global's type (PGlobal)
	Path   []int
	Global string // PGlobal: heap key stem
}

func (p *PtrV) Type() types.Type { return p.T }

type StructV struct {
	T types.Type
	F []Val
}

func (s *StructV) Type() types.Type { return s.T }

type SliceV struct {
	T                  types.Type
	Arr, Off, Len, Cap *Term
}

func (s *SliceV) Type() types.Type { return s.T }

// IfaceV: (tag, ref). Known, when non-nil, is the statically known dynamic value.
type IfaceV struct {
	T        types.Type
	Tag, Ref *Term
	Known    Val
}

func (s *IfaceV) Type() types.Type { return s.T }

// FuncV: a function value. Fn non-nil: statically known (possibly a closure
// with Bindings). Otherwise only the id term is known.
type FuncV struct {
	T        types.Type
	Id       *Term
	Fn       *ssa.Function
	Bindings []Val
	Recv     Val // bound method receiver
}

func (s *FuncV) Type() types.Type { return s.T }

type TupleV struct {
	T types.Type
	E []Val
}

func (s *TupleV) Type() types.Type { return s.T }

// ArrayV: fixed-size Go array value [N]T, small N only.
type ArrayV struct {
	T types.Type
	E []Val
}

func (s *ArrayV) Type() types.Type { return s.T }

// UnsupportedErr aborts the translation of one function: it is reported as
// unsupported, never as proved.
type UnsupportedErr struct{ Msg string }

func (e *UnsupportedErr) Error() string { return e.Msg }

func unsupported(format string, a ...any) {
	panic(&UnsupportedErr{fmt.Sprintf(format, a...)})
}

// SpecErr: a contract that does not resolve (typo, renamed field…). Fails the run.
type SpecErr struct{ Msg string }

func (e *SpecErr) Error() string { return e.Msg }

func specErr(format string, a ...any) {
	msg := fmt.Sprintf(format, a...)
	if os.Getenv("GOVC_TRACE") != "" {
		msg += "\n" + string(debug.Stack())
	}
	panic(&SpecErr{msg})
}

// ---------------------------------------------------------------------------
// Types → sorts and leaves

func under(t types.Type) types.Type {
	for {
		u := t.Underlying()
		if u == t {
			return t
		}
		t = u
	}
}

func qual(p *types.Package) string { return p.Path() }

func typeKey(t types.Type) string {
	s := types.TypeString(t, qual)
	s = strings.ReplaceAll(s, "github.com/jsightapi/jsight-api-core/", "")
	s = strings.ReplaceAll(s, "github.com/jsightapi/jsight-schema-core", "jsc")
	return s
}

type intRange struct {
	lo, hi string // decimal
	bits   int
	signed bool
}

func intInfo(b *types.Basic) (intRange, bool) {
	switch b.Kind() {
	case types.Int, types.Int64, types.UntypedInt:
		return intRange{"-9223372036854775808", "9223372036854775807", 64, true}, true
	case types.Int32, types.UntypedRune:
		return intRange{"-2147483648", "2147483647", 32, true}, true
	case types.Int16:
		return intRange{"-32768", "32767", 16, true}, true
	case types.Int8:
		return intRange{"-128", "127", 8, true}, true
	case types.Uint, types.Uint64, types.Uintptr:
		return intRange{"0", "18446744073709551615", 64, false}, true
	case types.Uint32:
		return intRange{"0", "4294967295", 32, false}, true
	case types.Uint16:
		return intRange{"0", "65535", 16, false}, true
	case types.Uint8:
		return intRange{"0", "255", 8, false}, true
	}
	return intRange{}, false
}

func pow2(bits int) string {
	switch bits {
	case 8:
		return "256"
	case 16:
		return "65536"
	case 32:
		return "4294967296"
	case 64:
		return "18446744073709551616"
	}
	panic("pow2")
}

// scalarSort: the SMT sort of a type represented by one term; "" if aggregate.
func scalarSort(t types.Type) Sort {
	switch u := under(t).(type) {
	case *types.Basic:
		switch {
		case u.Info()&types.IsBoolean != 0:
			return SBool
		case u.Info()&types.IsInteger != 0:
			return SInt
		case u.Info()&types.IsString != 0:
			return SString
		case u.Kind() == types.UnsafePointer:
			return SInt
		case u.Info()&types.IsFloat != 0:
			return SInt // floats are opaque integers (never computed with)
		case u.Kind() == types.UntypedNil:
			return SInt
		}
	case *types.Pointer, *types.Map, *types.Signature, *types.Chan:
		return SInt
	}
	return ""
}

type leaf struct {
	suffix string
	sort   Sort
	typ    types.Type // Go type of the leaf if scalar leaf of the original type, else nil
}

func leavesOf(t types.Type) []leaf {
	if s := scalarSort(t); s != "" {
		return []leaf{{"", s, t}}
	}
	switch u := under(t).(type) {
	case *types.Slice:
		return []leaf{{"#arr", SInt, nil}, {"#off", SInt, nil}, {"#len", SInt, nil}, {"#cap", SInt, nil}}
	case *types.Interface:
		return []leaf{{"#tag", SInt, nil}, {"#ref", SInt, nil}}
	case *types.Struct:
		var out []leaf
		for i := 0; i < u.NumFields(); i++ {
			f := u.Field(i)
			for _, l := range leavesOf(f.Type()) {
				out = append(out, leaf{"." + f.Name() + l.suffix, l.sort, l.typ})
			}
		}
		return out
	case *types.Array:
		if u.Len() > 8 {
			unsupported("array type %s too large", typeKey(t))
		}
		var out []leaf
		for i := int64(0); i < u.Len(); i++ {
			for _, l := range leavesOf(u.Elem()) {
				out = append(out, leaf{fmt.Sprintf("[%d]%s", i, l.suffix), l.sort, l.typ})
			}
		}
		return out
	case *types.Tuple:
		unsupported("tuple in memory")
	}
	unsupported("type %s has no memory representation", typeKey(t))
	return nil
}

// flatten returns the leaf terms of a value in leavesOf order.
func (x *Exec) flatten(v Val) []*Term {
	switch v := v.(type) {
	case *Scalar:
		return []*Term{v.t}
	case *PtrV:
		return []*Term{x.ptrTerm(v)}
	case *FuncV:
		if len(v.Bindings) > 0 || v.Recv != nil {
			// a closure / bound method stored as a first-class value: memory keeps an opaque non-nil function id (its
			// bindings are not representable; a later call through the stored value is a call of an unknown function)
			id := x.sc.fresh(SInt, "closure")
			x.sc.assume(not(eq(id, tZero)))
			return []*Term{id}
		}
		return []*Term{v.Id}
	case *SliceV:
		return []*Term{v.Arr, v.Off, v.Len, v.Cap}
	case *IfaceV:
		return []*Term{v.Tag, v.Ref}
	case *StructV:
		var out []*Term
		for _, f := range v.F {
			out = append(out, x.flatten(f)...)
		}
		return out
	case *ArrayV:
		var out []*Term
		for _, f := range v.E {
			out = append(out, x.flatten(f)...)
		}
		return out
	}
	unsupported("cannot flatten %T", v)
	return nil
}

// unflatten rebuilds a value of type t from leaf terms.
func (x *Exec) unflatten(t types.Type, ts []*Term) (Val, []*Term) {
	if s := scalarSort(t); s != "" {
		return x.scalarVal(t, ts[0]), ts[1:]
	}
	switch u := under(t).(type) {
	case *types.Slice:
		return &SliceV{T: t, Arr: ts[0], Off: ts[1], Len: ts[2], Cap: ts[3]}, ts[4:]
	case *types.Interface:
		return &IfaceV{T: t, Tag: ts[0], Ref: ts[1]}, ts[2:]
	case *types.Struct:
		sv := &StructV{T: t}
		for i := 0; i < u.NumFields(); i++ {
			var f Val
			f, ts = x.unflatten(u.Field(i).Type(), ts)
			sv.F = append(sv.F, f)
		}
		return sv, ts
	case *types.Array:
		av := &ArrayV{T: t}
		for i := int64(0); i < u.Len(); i++ {
			var f Val
			f, ts = x.unflatten(u.Elem(), ts)
			av.E = append(av.E, f)
		}
		return av, ts
	}
	unsupported("unflatten %s", typeKey(t))
	return nil, nil
}

// scalarVal wraps a term as a value of scalar type t.
func (x *Exec) scalarVal(t types.Type, tm *Term) Val {
	switch u := under(t).(type) {
	case *types.Pointer:
		return &PtrV{T: t, Kind: PObj, Base: tm, Root: u.Elem()}
	case *types.Signature:
		return &FuncV{T: t, Id: tm}
	}
	return &Scalar{T: t, t: tm}
}

// ptrTerm: the SMT term of a first-class pointer; interior pointers have none.
func (x *Exec) ptrTerm(p *PtrV) *Term {
	if p.Kind == PObj && len(p.Path) == 0 {
		return p.Base
	}
	unsupported("interior pointer used as a first-class value (%s)", typeKey(p.T))
	return nil
}

// zeroVal: Go zero value of t.
func (x *Exec) zeroVal(t types.Type) Val {
	ls := leavesOf(t)
	ts := make([]*Term, len(ls))
	for i, l := range ls {
		switch l.sort {
		case SInt:
			ts[i] = tZero
		case SBool:
			ts[i] = tFalse
		case SString:
			ts[i] = strLit("")
		default:
			unsupported("zero of sort %s", l.sort)
		}
	}
	v, _ := x.unflatten(t, ts)
	return v
}

// freshVal: an unconstrained value of type t that satisfies t's type invariant
// (integer ranges, 0 <= off, 0 <= len <= cap, allocated references).
func (x *Exec) freshVal(t types.Type, hint string) Val {
	ls := leavesOf(t)
	ts := make([]*Term, len(ls))
	for i, l := range ls {
		ts[i] = x.sc.fresh(l.sort, hint+l.suffix)
	}
	v, _ := x.unflatten(t, ts)
	x.assumeTypeInv(v, tTrue)
	return v
}

// assumeTypeInv adds the type invariant of v as an assumption under guard.
func (x *Exec) assumeTypeInv(v Val, guard *Term) {
	var cs []*Term
	x.typeInv(v, &cs)
	if len(cs) > 0 {
		x.sc.assume(implies(guard, and(cs...)))
	}
}

func (x *Exec) typeInv(v Val, cs *[]*Term) {
	switch v := v.(type) {
	case *Scalar:
		if b, ok := under(v.T).(*types.Basic); ok {
			if r, ok := intInfo(b); ok {
				*cs = append(*cs, le(bigLit(r.lo), v.t), le(v.t, bigLit(r.hi)))
			}
			if b.Info()&types.IsString != 0 {
				// nothing
			}
		}
		if _, ok := under(v.T).(*types.Map); ok {
			*cs = append(*cs, le(tZero, v.t), lt(v.t, x.st.alloc))
		}
	case *PtrV:
		if v.Kind == PObj && len(v.Path) == 0 {
			*cs = append(*cs, le(tZero, v.Base), lt(v.Base, x.st.alloc))
		}
	case *FuncV:
		*cs = append(*cs, le(tZero, v.Id))
		if nt, ok := v.T.(*types.Named); ok && nt.Obj().Pkg() != nil {
			if blk, ok := x.eng.ftBlock[nt.Obj().Pkg().Path()+"::"+nt.Obj().Name()]; ok {
				// closed world: a value of this unexported-constructor func type is nil or one of the functions converted to it
				*cs = append(*cs, or(eq(v.Id, tZero), and(le(intLit(int64(blk[0])), v.Id), le(v.Id, intLit(int64(blk[1]))))))
			}
		}
	case *SliceV:
		*cs = append(*cs, le(tZero, v.Arr), lt(v.Arr, x.st.alloc), le(tZero, v.Off), le(tZero, v.Len), le(v.Len, v.Cap),
			le(v.Cap, bigLit("4611686018427387904")),
			implies(eq(v.Arr, tZero), and(eq(v.Len, tZero), eq(v.Cap, tZero), eq(v.Off, tZero))))
	case *IfaceV:
		*cs = append(*cs, le(tZero, v.Tag), lt(v.Ref, x.st.alloc), implies(eq(v.Tag, tZero), eq(v.Ref, tZero)))
		if !types.IsInterface(v.T) {
			break
		}
		// the dynamic type implements the static interface
		if tags := x.eng.implementers(v.T); tags != nil {
			var alts []*Term
			alts = append(alts, eq(v.Tag, tZero))
			for _, tg := range tags {
				alts = append(alts, eq(v.Tag, intLit(int64(tg))))
			}
			*cs = append(*cs, or(alts...))
		}
	case *StructV:
		for _, f := range v.F {
			x.typeInv(f, cs)
		}
	case *ArrayV:
		for _, f := range v.E {
			x.typeInv(f, cs)
		}
	}
}

// iteVal merges two values of the same shape.
func (x *Exec) iteVal(c *Term, a, b Val) Val {
	if isLitTrue(c) {
		return a
	}
	if isLitFalse(c) {
		return b
	}
	if a == b {
		return a
	}
	// statically known function values that coincide
	if fa, ok := a.(*FuncV); ok {
		if fb, ok := b.(*FuncV); ok && fa.Fn != nil && fa.Fn == fb.Fn && len(fa.Bindings) == 0 && len(fb.Bindings) == 0 {
			return a
		}
	}
	if pa, ok := a.(*PtrV); ok {
		if pb, ok := b.(*PtrV); ok && pa.Kind == pb.Kind && samePath(pa.Path, pb.Path) && pa.Global == pb.Global &&
			(len(pa.Path) > 0 || pa.Kind != PObj) && types.Identical(pa.Root, pb.Root) {
			r := *pa
			r.Base = ite(c, pa.Base, pb.Base)
			if pa.Idx != nil {
				r.Idx = ite(c, pa.Idx, pb.Idx)
			}
			return &r
		}
	}
	if ta, ok := a.(*TupleV); ok {
		tb := b.(*TupleV)
		r := &TupleV{T: ta.T}
		for i := range ta.E {
			r.E = append(r.E, x.iteVal(c, ta.E[i], tb.E[i]))
		}
		return r
	}
	fa, fb := x.flatten(a), x.flatten(b)
	if len(fa) != len(fb) {
		unsupported("merge of values of different shapes")
	}
	out := make([]*Term, len(fa))
	for i := range fa {
		out[i] = x.sc.def(ite(c, fa[i], fb[i]), "m")
	}
	v, _ := x.unflatten(a.Type(), out)
	// keep statically known dynamic value if both sides agree
	if ia, ok := a.(*IfaceV); ok {
		if ib, ok := b.(*IfaceV); ok && ia.Known != nil && ia.Known == ib.Known {
			v.(*IfaceV).Known = ia.Known
		}
	}
	return v
}

func samePath(a, b []int) bool {
	if len(a) != len(b) {
		return false
	}
	for i := range a {
		if a[i] != b[i] {
			return false
		}
	}
	return true
}

// eqVal: structural equality term.
func (x *Exec) eqVal(a, b Val) *Term {
	if ia, ok := a.(*IfaceV); ok {
		ib := b.(*IfaceV)
		return and(eq(ia.Tag, ib.Tag), eq(ia.Ref, ib.Ref))
	}
	fa, fb := x.flatten(a), x.flatten(b)
	if len(fa) != len(fb) {
		unsupported("comparison of values of different shapes")
	}
	var cs []*Term
	for i := range fa {
		cs = append(cs, eq(fa[i], fb[i]))
	}
	return and(cs...)
}
