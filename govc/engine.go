package main

import (
	"fmt"
	"go/token"
	"go/types"
	"os"
	"sort"
	"strings"
	"sync"

	"golang.org/x/tools/go/packages"
	"golang.org/x/tools/go/ssa"
	"golang.org/x/tools/go/ssa/ssautil"
)

const modPath = "github.com/jsightapi/jsight-api-core"

type Engine struct {
	repo    string
	prog    *ssa.Program
	fset    *token.FileSet
	pkgs    map[string]*ssa.Package // by path
	tpkgs   map[string]*packages.Package
	specs   *Specs
	repeatInfo *repeatScan
	missing    []missingTarget
	fnIDs   map[*ssa.Function]int
	fnByID  []*ssa.Function
	tags    map[string]int
	tagType []types.Type
	allNamed []types.Type
	implCache map[string][]int
	contractOf map[*ssa.Function]*Contract
	byContract map[*Contract]*ssa.Function
	loopsOf    map[*ssa.Function][]*Contract
	closuresOf map[*ssa.Function][]*Contract
	writeSets  map[*ssa.Function]map[string]bool
	wsBusy     map[*ssa.Function]bool
	mu         sync.Mutex
	ftBlock    map[string][2]int // named func type key -> [lo,hi] id block of its members
	ftMembers  map[string][]*ssa.Function
	tableCache map[string][]string
	known      []knownFinding
	ftBySig    map[string]*Contract // uniform contracts of unnamed func types, keyed by signature string
}

func loadEngine(repo string) (*Engine, error) {
	cfg := &packages.Config{
		Mode: packages.LoadAllSyntax,
		Dir:  repo,
		Env:  append(os.Environ(), "GOFLAGS=-mod=mod", "GOPROXY=off", "GOSUMDB=off", "GOTOOLCHAIN=local"),
		BuildFlags: []string{"-tags=verif"},
	}
	pkgs, err := packages.Load(cfg, "./...")
	if err != nil {
		return nil, err
	}
	nerr := 0
	packages.Visit(pkgs, nil, func(p *packages.Package) {
		for _, e := range p.Errors {
			fmt.Fprintln(os.Stderr, "load error:", e)
			nerr++
		}
	})
	if nerr > 0 {
		return nil, fmt.Errorf("%d package load errors", nerr)
	}
	prog, _ := ssautil.AllPackages(pkgs, ssa.InstantiateGenerics)
	prog.Build()
	e := &Engine{repo: repo, prog: prog, fset: prog.Fset, pkgs: map[string]*ssa.Package{}, tpkgs: map[string]*packages.Package{},
		fnIDs: map[*ssa.Function]int{}, tags: map[string]int{}, implCache: map[string][]int{},
		contractOf: map[*ssa.Function]*Contract{}, byContract: map[*Contract]*ssa.Function{},
		loopsOf: map[*ssa.Function][]*Contract{}, closuresOf: map[*ssa.Function][]*Contract{},
		writeSets: map[*ssa.Function]map[string]bool{}, wsBusy: map[*ssa.Function]bool{}}
	e.fnByID = append(e.fnByID, nil)
	e.tagType = append(e.tagType, nil)
	for _, p := range prog.AllPackages() {
		e.pkgs[p.Pkg.Path()] = p
	}
	pkgDirs := map[string]string{}
	packages.Visit(pkgs, nil, func(p *packages.Package) {
		e.tpkgs[p.PkgPath] = p
		if strings.HasPrefix(p.PkgPath, modPath) && len(p.GoFiles) > 0 {
			dir := p.GoFiles[0][:strings.LastIndex(p.GoFiles[0], "/")]
			pkgDirs[p.PkgPath] = dir
		}
	})
	e.specs, err = loadSpecs(repo, pkgDirs)
	if err != nil {
		return nil, err
	}
	// all named types of the module and of packages it uses (for interface implementers)
	var paths []string
	for p := range e.pkgs {
		paths = append(paths, p)
	}
	sort.Strings(paths)
	for _, p := range paths {
		if !strings.HasPrefix(p, "github.com/jsightapi/") && p != "errors" && p != "fmt" {
			continue
		}
		sc := e.pkgs[p].Pkg.Scope()
		for _, n := range sc.Names() {
			if tn, ok := sc.Lookup(n).(*types.TypeName); ok && !tn.IsAlias() {
				if _, isIface := tn.Type().Underlying().(*types.Interface); isIface {
					continue
				}
				if nt, ok := tn.Type().(*types.Named); ok && nt.TypeParams().Len() > 0 {
					continue
				}
				e.allNamed = append(e.allNamed, tn.Type())
			}
		}
	}
	if err := e.bindContracts(); err != nil {
		return nil, err
	}
	// closed world of named func types that have a functype contract: contiguous id blocks
	e.ftBlock = map[string][2]int{}
	e.ftMembers = map[string][]*ssa.Function{}
	e.tableCache = map[string][]string{}
	byType := map[string][]*ssa.Function{}
	for fn, c := range e.ftypeMembers() {
		k := c.Pkg + "::" + c.Target
		byType[k] = append(byType[k], fn)
	}
	var tks []string
	for k := range byType {
		tks = append(tks, k)
	}
	sort.Strings(tks)
	for _, k := range tks {
		fns := byType[k]
		sort.Slice(fns, func(i, j int) bool { return fns[i].String() < fns[j].String() })
		lo := len(e.fnByID)
		for _, f := range fns {
			e.fnID(f)
		}
		e.ftBlock[k] = [2]int{lo, len(e.fnByID) - 1}
		e.ftMembers[k] = fns
	}
	return e, nil
}

func (e *Engine) fnID(f *ssa.Function) int {
	e.mu.Lock()
	defer e.mu.Unlock()
	if id, ok := e.fnIDs[f]; ok {
		return id
	}
	id := len(e.fnByID)
	e.fnIDs[f] = id
	e.fnByID = append(e.fnByID, f)
	return id
}

func (e *Engine) tagOf(t types.Type) int {
	e.mu.Lock()
	defer e.mu.Unlock()
	k := typeKey(t)
	if id, ok := e.tags[k]; ok {
		return id
	}
	id := len(e.tagType)
	e.tags[k] = id
	e.tagType = append(e.tagType, t)
	return id
}

// implementers: tags of all known concrete types implementing interface t
// (nil = unknown / too many: no constraint).
func (e *Engine) implementers(t types.Type) []int {
	it, ok := under(t).(*types.Interface)
	if !ok || it.NumMethods() == 0 {
		return nil
	}
	k := typeKey(t)
	e.mu.Lock()
	r, ok := e.implCache[k]
	e.mu.Unlock()
	if ok {
		return r
	}
	var out []int
	for _, nt := range e.allNamed {
		if types.Implements(nt, it) {
			out = append(out, e.tagOf(nt))
		}
		pt := types.NewPointer(nt)
		if types.Implements(pt, it) {
			out = append(out, e.tagOf(pt))
		}
	}
	// the error interface has implementations everywhere: leave unconstrained
	if k == "error" {
		out = nil
	}
	e.mu.Lock()
	e.implCache[k] = out
	e.mu.Unlock()
	return out
}

// lookupFunc resolves a designator ("name", "(*T).m", "T.m") in a package.
type missingTarget struct {
	c   *Contract
	msg string
}

func (e *Engine) lookupFunc(pkgPath, desig string) *ssa.Function {
	p := e.pkgs[pkgPath]
	if p == nil {
		return nil
	}
	// F$k: the k-th function literal of F (ssa naming), e.g. WithBannedDirectives$1
	if i := strings.LastIndex(desig, "$"); i > 0 {
		parent := e.lookupFunc(pkgPath, desig[:i])
		var k int
		if _, err := fmt.Sscanf(desig[i+1:], "%d", &k); err != nil || parent == nil || k < 1 || k > len(parent.AnonFuncs) {
			return nil
		}
		return parent.AnonFuncs[k-1]
	}
	if !strings.Contains(desig, ".") {
		return p.Func(desig)
	}
	ptr := false
	d := desig
	if strings.HasPrefix(d, "(*") {
		ptr = true
		d = strings.Replace(d[2:], ")", "", 1)
	} else if strings.HasPrefix(d, "(") {
		d = strings.Replace(d[1:], ")", "", 1)
	}
	dot := strings.LastIndex(d, ".")
	tname, mname := d[:dot], d[dot+1:]
	tp := p.Type(tname)
	if tp == nil {
		return nil
	}
	var recv types.Type = tp.Type()
	if ptr {
		recv = types.NewPointer(recv)
	}
	sel := e.prog.MethodSets.MethodSet(recv).Lookup(p.Pkg, mname)
	if sel == nil {
		return nil
	}
	return e.prog.MethodValue(sel)
}

func (e *Engine) bindContracts() error {
	var errs []string
	for key, c := range e.specs.Funcs {
		i := strings.Index(key, "::")
		f := e.lookupFunc(key[:i], key[i+2:])
		if f == nil {
			e.missing = append(e.missing, missingTarget{c, fmt.Sprintf("%s: contract target %s not found in %s", c.Where, key[i+2:], key[:i])})
			continue
		}
		e.contractOf[f] = c
		e.byContract[c] = f
	}
	for key, cs := range e.specs.Loops {
		i := strings.Index(key, "::")
		f := e.lookupFunc(key[:i], key[i+2:])
		if f == nil {
			e.missing = append(e.missing, missingTarget{cs[0], fmt.Sprintf("%s: loop contract target %s not found", cs[0].Where, key[i+2:])})
			continue
		}
		e.loopsOf[f] = cs
		for _, lc := range cs {
			lc.Parent = e.specs.Funcs[key]
		}
	}
	for key, cs := range e.specs.Closures {
		i := strings.Index(key, "::")
		f := e.lookupFunc(key[:i], key[i+2:])
		if f == nil {
			errs = append(errs, fmt.Sprintf("%s: closure contract target %s not found", cs[0].Where, key[i+2:]))
			continue
		}
		e.closuresOf[f] = cs
	}
	e.ftBySig = map[string]*Contract{}
	for key, c := range e.specs.FTypes {
		i := strings.Index(key, "::")
		desig := key[i+2:]
		if !strings.Contains(desig, ".") {
			continue
		}
		// Type.field: the (unnamed) func type stored in that field (directly, or as map/slice element)
		dot := strings.LastIndex(desig, ".")
		p := e.pkgs[key[:i]]
		var ft types.Type
		if p != nil {
			if tn := p.Type(desig[:dot]); tn != nil {
				if st, ok := tn.Type().Underlying().(*types.Struct); ok {
					for fi := 0; fi < st.NumFields(); fi++ {
						if st.Field(fi).Name() == desig[dot+1:] {
							ft = st.Field(fi).Type()
						}
					}
				}
			}
		}
		for ft != nil {
			switch u := ft.Underlying().(type) {
			case *types.Map:
				ft = u.Elem()
				continue
			case *types.Slice:
				ft = u.Elem()
				continue
			}
			break
		}
		if _, ok := ft.(*types.Signature); !ok || ft == nil {
			errs = append(errs, fmt.Sprintf("%s: functype target %s is not a field holding a func type", c.Where, desig))
			continue
		}
		e.ftBySig[typeKey(ft)] = c
	}
	if len(errs) > 0 {
		sort.Strings(errs)
		return fmt.Errorf("unresolved contract targets:\n  %s", strings.Join(errs, "\n  "))
	}
	return nil
}

func (e *Engine) pos(p token.Pos) string {
	if !p.IsValid() {
		return "?"
	}
	ps := e.fset.Position(p)
	return fmt.Sprintf("%s:%d", strings.TrimPrefix(ps.Filename, e.repo+"/"), ps.Line)
}

func shortFn(f *ssa.Function) string {
	s := f.String()
	s = strings.ReplaceAll(s, modPath+"/", "")
	s = strings.ReplaceAll(s, "github.com/jsightapi/jsight-schema-core", "jsc")
	return s
}

func inModule(f *ssa.Function) bool {
	return f.Pkg != nil && strings.HasPrefix(f.Pkg.Pkg.Path(), modPath)
}

func (e *Engine) inlinable(f *ssa.Function) bool {
	if f.Blocks == nil {
		return false
	}
	var path string
	if f.Pkg != nil {
		path = f.Pkg.Pkg.Path()
	} else if f.Origin() != nil && f.Origin().Pkg != nil {
		path = f.Origin().Pkg.Pkg.Path() // instantiated generic
	} else if f.Parent() != nil {
		return e.inlinable(f.Parent())
	} else if f.Synthetic != "" {
		// wrappers/thunks/bound methods: inline them, the callee inside is judged on its own
		return true
	}
	if strings.HasPrefix(path, modPath) {
		return true
	}
	for _, p := range e.specs.InlinePkg {
		if path == p {
			return true
		}
	}
	return false
}

// callsTagged: does fn (or a function it would inline) call a function whose
// contract carries property id?
func (e *Engine) callsTagged(u *Unit, id string) bool {
	seen := map[*ssa.Function]bool{}
	var visit func(f *ssa.Function, depth int) bool
	visit = func(f *ssa.Function, depth int) bool {
		if f == nil || seen[f] || depth > maxInlineDepth || f.Blocks == nil {
			return false
		}
		seen[f] = true
		for _, b := range f.Blocks {
			for _, in := range b.Instrs {
				var cc *ssa.CallCommon
				switch c := in.(type) {
				case *ssa.Call:
					cc = &c.Call
				case *ssa.Defer:
					cc = &c.Call
				}
				if cc == nil {
					continue
				}
				callee := cc.StaticCallee()
				if callee == nil {
					if nt, ok := cc.Value.Type().(*types.Named); ok && !cc.IsInvoke() && nt.Obj().Pkg() != nil {
						if c := e.specs.FTypes[nt.Obj().Pkg().Path()+"::"+nt.Obj().Name()]; c != nil && contractMentions(c, id) {
							return true
						}
					}
					continue
				}
				if c := e.contractOf[callee]; c != nil {
					if contractMentions(c, id) {
						return true
					}
					continue
				}
				full := callee.String()
				if c := e.specs.Externs[full]; c != nil {
					if contractMentions(c, id) {
						return true
					}
					continue
				}
				if e.inlinable(callee) && visit(callee, depth+1) {
					return true
				}
			}
		}
		for _, a := range f.AnonFuncs {
			if visit(a, depth+1) {
				return true
			}
		}
		return false
	}
	return visit(u.Fn, 0)
}
