package main

import (
	"fmt"
	"go/types"
	"sort"
	"strings"

	"golang.org/x/tools/go/ssa"
	"golang.org/x/tools/go/ssa/ssautil"
)

// Syntactic whole-module obligations declared in the contract files:
//
//	//@ confined <pkg>.<Type>.<field> writers <func>[, <func>...]   [property Cxx]
//
// Every store to the field (and every map update / delete on a map loaded from it) in non-test code of the module must
// be inside one of the listed functions (closures count as their enclosing function). Kind: field-write-confined.

type confinedSpec struct {
	Pkg, Type, Field string
	Writers          []string
	Readers          bool // the list names the functions that may READ the field (any access counts)
	Props            []string
	Where            string
}

func (e *Engine) confinedChecks(id string) []fdResult {
	var out []fdResult
	for _, cs := range e.specs.Confined {
		if !hasProp(cs.Props, id) {
			continue
		}
		var bad []string
		n := 0
		for fn := range ssautil.AllFunctions(e.prog) {
			if fn.Blocks == nil || !inModuleFn(fn) {
				continue
			}
			top := fn
			for top.Parent() != nil {
				top = top.Parent()
			}
			allowed := false
			for _, w := range cs.Writers {
				if top.Name() == w || shortFn(top) == w {
					allowed = true
				}
			}
			isField := func(v ssa.Value) bool {
				fa, ok := v.(*ssa.FieldAddr)
				if !ok {
					return false
				}
				pt, ok := fa.X.Type().Underlying().(*types.Pointer)
				if !ok {
					return false
				}
				nt, ok := pt.Elem().(*types.Named)
				if !ok || nt.Obj().Pkg() == nil || nt.Obj().Pkg().Path() != cs.Pkg || nt.Obj().Name() != cs.Type {
					return false
				}
				st := nt.Underlying().(*types.Struct)
				return st.Field(fa.Field).Name() == cs.Field
			}
			loadsField := func(v ssa.Value) bool {
				u, ok := v.(*ssa.UnOp)
				return ok && isField(u.X)
			}
			for _, b := range fn.Blocks {
				for _, in := range b.Instrs {
					hit := false
					if cs.Readers {
						// any address-of or load of the field counts as an access
						if fa, ok := in.(*ssa.FieldAddr); ok && isField(fa) {
							n++
							if !allowed {
								bad = append(bad, fmt.Sprintf("%s accesses %s.%s at %s", shortFn(fn), cs.Type, cs.Field, e.pos(in.Pos())))
							}
						}
						continue
					}
					switch in := in.(type) {
					case *ssa.Store:
						hit = isField(in.Addr)
					case *ssa.MapUpdate:
						hit = loadsField(in.Map)
					case *ssa.Call:
						if bi, ok := in.Call.Value.(*ssa.Builtin); ok && bi.Name() == "delete" && len(in.Call.Args) > 0 {
							hit = loadsField(in.Call.Args[0])
						}
					}
					if hit {
						n++
						if !allowed {
							bad = append(bad, fmt.Sprintf("%s writes %s.%s at %s", shortFn(fn), cs.Type, cs.Field, e.pos(in.Pos())))
						}
					}
				}
			}
		}
		sort.Strings(bad)
		r := fdResult{Name: fmt.Sprintf("%s.%s/field-write-confined#1", cs.Type, cs.Field), Props: cs.Props,
			Goal: fmt.Sprintf("%s.%s is written only by %s (%d write sites found)", cs.Type, cs.Field, strings.Join(cs.Writers, ", "), n), OK: len(bad) == 0 && n > 0}
		if cs.Readers {
			r.Name = fmt.Sprintf("%s.%s/field-access-confined#1", cs.Type, cs.Field)
			r.Goal = fmt.Sprintf("%s.%s is accessed only by %s (%d access sites found)", cs.Type, cs.Field, strings.Join(cs.Writers, ", "), n)
		}
		if n == 0 {
			r.Detail = "no write site found at all (contract out of date?)"
		} else {
			r.Detail = strings.Join(bad, "\n")
		}
		out = append(out, r)
	}
	return out
}

func inModuleFn(fn *ssa.Function) bool {
	for fn.Parent() != nil {
		fn = fn.Parent()
	}
	if fn.Pkg != nil {
		return strings.HasPrefix(fn.Pkg.Pkg.Path(), modPath)
	}
	if fn.Origin() != nil && fn.Origin().Pkg != nil {
		return strings.HasPrefix(fn.Origin().Pkg.Pkg.Path(), modPath)
	}
	return false
}
