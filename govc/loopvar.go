package main

import (
	"fmt"
	"go/token"
	"sort"
	"strings"

	"golang.org/x/tools/go/ssa"
)

// Obligation kind "loopvar-address": the module's go.mod declares a Go version below 1.22, so a `for ... range` value
// variable is ONE variable shared by all iterations. Storing its address (or the address of one of its fields) somewhere
// that outlives the iteration makes every stored pointer describe the LAST element. Decided on the SSA: a named local that
// receives the element of a range in a loop, and whose address - or a field address - is stored into memory, put into a
// map, converted to an interface or appended. Reported under C07 (an error then names the wrong directive) and C01.
func (e *Engine) loopVarChecks(id string) []fdResult {
	if id != "C07" && id != "C01" && id != "C06" {
		return nil
	}
	var bad []string
	n := 0
	for _, fn := range e.moduleFunctions() {
		for _, b := range fn.Blocks {
			for _, in := range b.Instrs {
				al, ok := in.(*ssa.Alloc)
				if !ok || al.Comment == "" || al.Referrers() == nil {
					continue
				}
				// receives a range element? (store of a value loaded from an IndexAddr, or extracted from a map/string iterator)
				isRangeVar := false
				for _, r := range *al.Referrers() {
					st, ok := r.(*ssa.Store)
					if !ok || st.Addr != ssa.Value(al) {
						continue
					}
					switch v := st.Val.(type) {
					case *ssa.UnOp:
						if _, ok := v.X.(*ssa.IndexAddr); ok && v.Op == token.MUL && st.Block() != al.Block() {
							isRangeVar = true
						}
					case *ssa.Extract:
						if _, ok := v.Tuple.(*ssa.Next); ok {
							isRangeVar = true
						}
					}
				}
				if !isRangeVar {
					continue
				}
				n++
				// does its address escape?
				var addrs []ssa.Value
				addrs = append(addrs, al)
				for _, r := range *al.Referrers() {
					if fa, ok := r.(*ssa.FieldAddr); ok {
						addrs = append(addrs, fa)
					}
				}
				for _, a := range addrs {
					refs := a.Referrers()
					if refs == nil {
						continue
					}
					for _, r := range *refs {
						esc := ""
						switch r := r.(type) {
						case *ssa.Store:
							if r.Val == a {
								esc = "stored"
							}
						case *ssa.MapUpdate:
							if r.Value == a || r.Key == a {
								esc = "put into a map"
							}
						case *ssa.MakeInterface:
							esc = "converted to an interface"
						}
						if esc != "" {
							bad = append(bad, fmt.Sprintf("%s: the address of range variable %s is %s at %s (one variable for all iterations under the module's Go version)", shortFn(fn), al.Comment, esc, e.pos(r.Pos())))
						}
					}
				}
			}
		}
	}
	sort.Strings(bad)
	return []fdResult{{Name: "module/loopvar-address#1", Props: []string{id},
		Goal: fmt.Sprintf("no address of a range value variable outlives its iteration (%d range value variables held in memory examined)", n),
		OK:   len(bad) == 0, Detail: strings.Join(bad, "\n")}}
}
