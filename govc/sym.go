package main

import (
	"fmt"
	"go/constant"
	"go/token"
	"runtime/debug"
	"sort"
	"strings"

	"golang.org/x/tools/go/ssa"
)

// Two-copy (relational) obligations for C08: a step function run from the same scanner state on two bytes that the
// language treats alike ('\n' ~ '\r', ' ' ~ '\t') must produce the same successor: same error-or-not (and the same error
// index), same next state, same stacks, same emitted events, same cursor, same ghost protocol state. The two documents
// differ exactly in the current byte. Nested dynamic calls of step functions are related by the induction hypothesis
// (the same symmetry for the callee), stated as: equal pre-states give equal post-states.
//
// Declared in the functype contract:   symmetric[C08,@nl] c: '\n' ~ '\r'

type symCall struct {
	pre, post map[string]*Term
	self      *Term
	args      []*Term
	res       *Term
}

type symSession struct {
	replay bool
	calls  map[*Contract][]*symCall
	next   map[*Contract]int
}

func (e *Engine) symUnits() []*Unit {
	var out []*Unit
	for fn, c := range e.ftypeMembers() {
		for _, cl := range c.clauses("symmetric") {
			u := e.newUnit(fn)
			u.FType = c
			u.Sym = cl
			u.Name = shortFn(fn) + "~" + cl.Label
			out = append(out, u)
		}
	}
	sort.Slice(out, func(i, j int) bool { return out[i].Name < out[j].Name })
	return out
}

func parseSym(cl *Clause) (param string, a, b int64) {
	// "c: '\n' ~ '\r'"
	i := strings.Index(cl.Text, ":")
	j := strings.Index(cl.Text, "~")
	if i < 0 || j < i {
		specErr("%s: bad symmetric clause", cl.Where)
	}
	param = strings.TrimSpace(cl.Text[:i])
	lit := func(s string) int64 {
		v := constant.MakeFromLiteral(strings.TrimSpace(s), token.CHAR, 0)
		n, _ := constant.Int64Val(v)
		return n
	}
	return param, lit(cl.Text[i+1 : j]), lit(cl.Text[j+1:])
}

func (e *Engine) translateSym(u *Unit) {
	x := newExec(e, u.Fn)
	u.Script = x.sc
	defer func() {
		if r := recover(); r != nil {
			switch r := r.(type) {
			case *UnsupportedErr:
				u.Unsupp = r.Msg
			case *SpecErr:
				u.SpecFail = r.Msg
			default:
				u.SpecFail = fmt.Sprintf("internal error: %v\n%s", r, debug.Stack())
			}
		}
	}()
	fn := u.Fn
	x.curPos = fn.Pos()
	x.selfFn = intLit(int64(e.fnID(fn)))
	pname, ca, cb := parseSym(u.Sym)
	props := u.Sym.Props
	var argsA, argsB []Val
	cIdx := -1
	names := u.FType.Params
	for i, p := range fn.Params {
		v := x.freshVal(p.Type(), "p_"+p.Name())
		argsA = append(argsA, v)
		argsB = append(argsB, v)
		if i < len(names) && names[i] == pname {
			cIdx = i
		}
	}
	if cIdx < 0 {
		specErr("%s: symmetric parameter %s not found", u.Sym.Where, pname)
	}
	argsA[cIdx] = &Scalar{fn.Params[cIdx].Type(), intLit(ca)}
	argsB[cIdx] = &Scalar{fn.Params[cIdx].Type(), intLit(cb)}
	x.old = x.st.clone()
	mkFrame := func(args []Val) *Frame {
		fr := &Frame{fn: fn, env: map[ssa.Value]Val{}}
		for i, p := range fn.Params {
			fr.env[p] = args[i]
		}
		return fr
	}
	frA, frB := mkFrame(argsA), mkFrame(argsB)
	// the two documents differ in the current byte only
	envA := x.unitEnv(frA, u.FType, x.st)
	sv, ok := x.evalExpr(envA, parseExpr("s.data.data", "sym")).(*SliceV)
	if !ok {
		specErr("symmetric: s.data.data is not a slice")
	}
	cur := x.evalInt(envA, parseExpr("s.curIndex", "sym"))
	et, ep := x.elemLoc(sv)
	ep.Idx = add(sv.Off, cur)
	l := x.locOf(ep, leavesOf(et)[0])
	stA := x.st.clone()
	stB := x.st.clone()
	hA := x.heapArr(stA, l)
	inner := sel(hA, sv.Arr)
	stA.heap[l.key] = x.sc.def(store(hA, sv.Arr, store(inner, ep.Idx, intLit(ca))), "HA")
	stB.heap[l.key] = x.sc.def(store(hA, sv.Arr, store(inner, ep.Idx, intLit(cb))), "HB")
	dataKey := l.key
	for _, pr := range []struct {
		fr *Frame
		st *State
	}{{frA, stA}, {frB, stB}} {
		env := x.unitEnv(pr.fr, u.FType, pr.st)
		env.old = pr.st
		for _, cl := range u.FType.clauses("requires") {
			x.sc.assume(x.evalBool(env, cl.expr()))
		}
	}
	x.assumeGlobalInvs()
	x.cover("cover", "pre", nil, tTrue, "precondition is satisfiable for both bytes")
	sess := &symSession{calls: map[*Contract][]*symCall{}, next: map[*Contract]int{}}
	x.sym = sess
	// run A
	x.st = stA.clone()
	x.old = stA
	resA := x.run(fn, argsA, nil, false)
	exitA := x.st
	// run B: same allocation counter, same entry heap except the byte
	sess.replay = true
	x.st = stB.clone()
	x.old = stB
	resB := x.run(fn, argsB, nil, false)
	exitB := x.st
	x.sym = nil
	// compare: both return (totality is C01's business), under the conjunction of both exit guards
	x.st = &State{guard: and(exitA.guard, exitB.guard), heap: exitA.heap, alloc: exitA.alloc, epochs: exitA.epochs}
	ra, rb := x.flatten(resA)[0], x.flatten(resB)[0]
	x.oblige("sym", u.Sym.Label+"/error-or-not", props, eq(eq(ra, tZero), eq(rb, tZero)), "both bytes give an error, or neither")
	// error index
	envEA := x.unitEnv(frA, u.FType, exitA)
	envEA.vars["result"] = resA
	envEB := x.unitEnv(frB, u.FType, exitB)
	envEB.vars["result"] = resB
	ia := x.evalInt(envEA, parseExpr("result.Index", "sym"))
	ib := x.evalInt(envEB, parseExpr("result.Index", "sym"))
	x.oblige("sym", u.Sym.Label+"/error-index", props, implies(not(eq(ra, tZero)), eq(ia, ib)), "the error is located at the same index")
	// successor state: every location of the frame (modifies of the functype), compared when no error
	noErr := eq(ra, tZero)
	for _, cl := range u.FType.clauses("modifies") {
		for _, part := range splitTop(cl.Text, ',') {
			part = strings.TrimSpace(part)
			if part == "" {
				continue
			}
			e1 := parseExpr(part, cl.Where)
			la := x.lvalueLocs(x.unitEnv(frA, u.FType, exitA), e1)
			lb := x.lvalueLocs(x.unitEnv(frB, u.FType, exitB), e1)
			if len(la) != len(lb) {
				continue
			}
			for i := range la {
				if la[i].loc.key == dataKey {
					continue
				}
				va := x.readLoc(exitA, la[i].loc)
				vb := x.readLoc(exitB, lb[i].loc)
				x.oblige("sym", u.Sym.Label+"/"+strings.ReplaceAll(part, " ", ""), props, implies(noErr, eq(va, vb)), "same successor: "+part+" ("+la[i].loc.key+")")
			}
		}
	}
}

// symDynamic relates the i-th dynamic functype call of run B to the i-th of run A (induction hypothesis).
func (x *Exec) symDynamic(c *Contract, pre *State, self *Term, args []Val, res Val) {
	s := x.sym
	if s == nil {
		return
	}
	rec := &symCall{pre: map[string]*Term{}, post: map[string]*Term{}, self: self}
	for k, v := range pre.heap {
		rec.pre[k] = v
	}
	for k, v := range x.st.heap {
		rec.post[k] = v
	}
	for _, a := range args {
		if ts := x.flattenOrNil(a); ts != nil {
			rec.args = append(rec.args, ts...)
		}
	}
	if res != nil {
		if _, isTuple := res.(*TupleV); !isTuple {
			if ts := x.flattenOrNil(res); len(ts) > 0 {
				rec.res = ts[0]
			}
		}
	}
	if self == nil {
		rec.self = tZero
	}
	if !s.replay {
		s.calls[c] = append(s.calls[c], rec)
		return
	}
	if s.next[c] >= len(s.calls[c]) {
		return
	}
	a := s.calls[c][s.next[c]]
	s.next[c]++
	var preEq []*Term
	preEq = append(preEq, eq(a.self, rec.self))
	keys := map[string]bool{}
	for k := range a.pre {
		keys[k] = true
	}
	for k := range rec.pre {
		keys[k] = true
	}
	for k := range keys {
		if strings.HasPrefix(k, "local:") || strings.HasPrefix(k, "elem:uint8") || strings.HasPrefix(k, "elem:byte") {
			continue
		}
		va, oka := a.pre[k]
		vb, okb := rec.pre[k]
		if !oka || !okb {
			if s, ok := x.heapSort[k]; ok {
				init := x.sc.global(quoteName("H0"+k), s)
				if !oka {
					va = init
				}
				if !okb {
					vb = init
				}
			} else {
				continue
			}
		}
		preEq = append(preEq, eq(va, vb))
	}
	// arguments: all equal; for a step function the byte (last argument) may differ within its class
	n := len(a.args)
	if len(rec.args) < n {
		n = len(rec.args)
	}
	if c.IsFType && n > 0 {
		n--
	}
	for i := 0; i < n; i++ {
		preEq = append(preEq, eq(a.args[i], rec.args[i]))
	}
	var postEq []*Term
	for k, vb := range rec.post {
		if va, ok := a.post[k]; ok && !strings.HasPrefix(k, "local:") {
			postEq = append(postEq, eq(va, vb))
		}
	}
	if a.res != nil && rec.res != nil {
		postEq = append(postEq, eq(eq(a.res, tZero), eq(rec.res, tZero)))
	}
	x.sc.assume(implies(and(preEq...), and(postEq...)))
}
