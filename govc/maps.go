package main

import (
	"go/types"

	"golang.org/x/tools/go/ssa"
)

// A Go map value is a reference (Int). Per map type three heap entries:
//   mapdom:<T>  : Array Int (Array K Bool)
//   mapval:<T><leaf> : Array Int (Array K V_leaf)
//   maplen:<T>  : Array Int Int
// Keys must be scalar-sorted (ints, strings, pointers, bools) or small structs /
// interfaces, which are encoded through an injective box term.

func (x *Exec) keyTerm(kt types.Type, k Val) *Term {
	if s := scalarSort(kt); s != "" {
		return x.flatten(k)[0]
	}
	if iv, ok := k.(*IfaceV); ok {
		// (tag, ref) pair folded into one Int through an injective pairing function
		return x.pairTerm(iv.Tag, iv.Ref)
	}
	return x.boxTerm(kt, x.flatten(k))
}

func keySort(kt types.Type) Sort {
	if s := scalarSort(kt); s != "" {
		return s
	}
	return SInt
}

func (x *Exec) mapLocs(t types.Type, mt *types.Map) (dom loc, ln loc, vals []loc, vleaves []leaf) {
	ks := keySort(mt.Key())
	tk := typeKey(t)
	dom = loc{"mapdom:" + tk, arrSort(SInt, arrSort(ks, SBool)), nil}
	ln = loc{"maplen:" + tk, arrSort(SInt, SInt), nil}
	if st, ok := under(mt.Elem()).(*types.Struct); ok && st.NumFields() == 0 {
		return
	}
	vleaves = leavesOf(mt.Elem())
	for _, lf := range vleaves {
		vals = append(vals, loc{"mapval:" + tk + lf.suffix, arrSort(SInt, arrSort(ks, lf.sort)), nil})
	}
	return
}

func (x *Exec) mapInit(t types.Type, mt *types.Map, ref *Term) {
	dom, ln, _, _ := x.mapLocs(t, mt)
	ks := keySort(mt.Key())
	h := x.heapArr(x.st, dom)
	empty := &Term{"((as const " + string(arrSort(ks, SBool)) + ") false)", arrSort(ks, SBool)}
	x.noteWrite(dom.key, []*Term{ref})
	x.noteWrite(ln.key, []*Term{ref})
	x.st.heap[dom.key] = x.sc.def(store(h, ref, empty), "H")
	hl := x.heapArr(x.st, ln)
	x.st.heap[ln.key] = x.sc.def(store(hl, ref, tZero), "H")
}

func (x *Exec) mapUpdate(fr *Frame, in *ssa.MapUpdate) {
	m := x.get(fr, in.Map).(*Scalar)
	mt := under(in.Map.Type()).(*types.Map)
	x.safety("nil-map-write", exprName(in.Map), not(eq(m.t, tZero)), "map != nil")
	k := x.keyTerm(mt.Key(), x.get(fr, in.Key))
	x.mapStore(in.Map.Type(), mt, m.t, k, x.get(fr, in.Value))
}

func (x *Exec) mapStore(t types.Type, mt *types.Map, m, k *Term, v Val) {
	dom, ln, vals, _ := x.mapLocs(t, mt)
	hd := x.heapArr(x.st, dom)
	x.noteWrite(dom.key, []*Term{m})
	x.noteWrite(ln.key, []*Term{m})
	for _, l := range vals {
		x.noteWrite(l.key, []*Term{m})
	}
	had := x.sc.def(sel(sel(hd, m), k), "had")
	x.st.heap[dom.key] = x.sc.def(store(hd, m, store(sel(hd, m), k, tTrue)), "H")
	hl := x.heapArr(x.st, ln)
	x.st.heap[ln.key] = x.sc.def(store(hl, m, ite(had, sel(hl, m), add(sel(hl, m), tOne))), "H")
	if len(vals) > 0 {
		ts := x.flatten(v)
		for i, l := range vals {
			h := x.heapArr(x.st, l)
			x.st.heap[l.key] = x.sc.def(store(h, m, store(sel(h, m), k, ts[i])), "H")
		}
	}
}

func (x *Exec) mapDelete(t types.Type, mt *types.Map, m, k *Term) {
	dom, ln, _, _ := x.mapLocs(t, mt)
	hd := x.heapArr(x.st, dom)
	x.noteWrite(dom.key, []*Term{m})
	x.noteWrite(ln.key, []*Term{m})
	// delete on a nil map is a no-op
	had := x.sc.def(and(not(eq(m, tZero)), sel(sel(hd, m), k)), "had")
	x.st.heap[dom.key] = x.sc.def(ite(eq(m, tZero), hd, store(hd, m, store(sel(hd, m), k, tFalse))), "H")
	hl := x.heapArr(x.st, ln)
	x.st.heap[ln.key] = x.sc.def(ite(had, store(hl, m, sub(sel(hl, m), tOne)), hl), "H")
}

func (x *Exec) mapHas(st *State, t types.Type, mt *types.Map, m, k *Term) *Term {
	dom, _, _, _ := x.mapLocs(t, mt)
	hd := x.heapArr(st, dom)
	return and(not(eq(m, tZero)), sel(sel(hd, m), k))
}

func (x *Exec) mapGet(st *State, t types.Type, mt *types.Map, m, k *Term) Val {
	_, _, vals, vleaves := x.mapLocs(t, mt)
	if len(vals) == 0 {
		return x.zeroVal(mt.Elem())
	}
	ts := make([]*Term, len(vals))
	for i, l := range vals {
		h := x.heapArr(st, l)
		ts[i] = sel(sel(h, m), k)
	}
	_ = vleaves
	v, _ := x.unflatten(mt.Elem(), ts)
	return v
}

func (x *Exec) mapLen(st *State, t types.Type, mt *types.Map, m *Term) *Term {
	_, ln, _, _ := x.mapLocs(t, mt)
	hl := x.heapArr(st, ln)
	return ite(eq(m, tZero), tZero, sel(hl, m))
}

func (x *Exec) lookup(fr *Frame, in *ssa.Lookup) {
	switch xv := x.get(fr, in.X).(type) {
	case *Scalar:
		mt, ok := under(in.X.Type()).(*types.Map)
		if !ok {
			unsupported("Lookup on %s", typeKey(in.X.Type()))
		}
		k := x.keyTerm(mt.Key(), x.get(fr, in.Index))
		has := x.sc.def(x.mapHas(x.st, in.X.Type(), mt, xv.t, k), "has")
		got := x.mapGet(x.st, in.X.Type(), mt, xv.t, k)
		x.assumeTypeInv(got, and(x.st.guard, has))
		val := x.iteVal(has, got, x.zeroVal(mt.Elem()))
		if in.CommaOk {
			fr.env[in] = &TupleV{T: in.Type(), E: []Val{val, &Scalar{types.Typ[types.Bool], has}}}
		} else {
			fr.env[in] = val
		}
	default:
		unsupported("Lookup on %T", xv)
	}
}

// ---------------------------------------------------------------------------
// range over map / string: handled together with loop contracts. The iterator
// is a translator-level token; Next yields (ok, k, v) with ok and k havoced and
// constrained: ok => k in dom and "not yet visited". Visited-set reasoning is
// delegated to the loop invariant through the ghost set `visited(it)`.

type RangeIter struct {
	T    types.Type
	X    Val
	XT   types.Type
	Seen *Term // Array K Bool of keys already produced (maps) / next index (strings)
}

func (r *RangeIter) Type() types.Type { return r.T }

func (x *Exec) rangeInit(fr *Frame, in *ssa.Range) {
	it := &RangeIter{T: in.Type(), X: x.get(fr, in.X), XT: in.X.Type()}
	fr.env[in] = it
}

func (x *Exec) rangeNext(fr *Frame, in *ssa.Next) {
	it, ok := x.get(fr, in.Iter).(*RangeIter)
	if !ok {
		unsupported("Next on non-iterator")
	}
	tup := in.Type().(*types.Tuple)
	if in.IsString {
		unsupported("range over string")
	}
	mt := under(it.XT).(*types.Map)
	m := it.X.(*Scalar).t
	okT := x.sc.fresh(SBool, "rng_ok")
	var kv Val
	var kt *Term
	if isInvalid(tup.At(1).Type()) {
		kv = &Scalar{tup.At(1).Type(), tZero}
		kk := x.freshVal(mt.Key(), "rng_k")
		kt = x.keyTerm(mt.Key(), kk)
	} else {
		kv = x.freshVal(mt.Key(), "rng_k")
		kt = x.keyTerm(mt.Key(), kv)
	}
	x.assumeHere(implies(okT, x.mapHas(x.st, it.XT, mt, m, kt)))
	// an empty map yields nothing
	x.assumeHere(implies(eq(x.mapLen(x.st, it.XT, mt, m), tZero), not(okT)))
	var vv Val
	if isInvalid(tup.At(2).Type()) {
		vv = &Scalar{tup.At(2).Type(), tZero}
	} else {
		vv = x.mapGet(x.st, it.XT, mt, m, kt)
		x.assumeTypeInv(vv, and(x.st.guard, okT))
	}
	fr.env[in] = &TupleV{T: in.Type(), E: []Val{&Scalar{types.Typ[types.Bool], okT}, kv, vv}}
}

func isInvalid(t types.Type) bool {
	b, ok := t.(*types.Basic)
	return ok && b.Kind() == types.Invalid
}

// pairTerm: injective pairing of two Ints (interface map keys).
func (x *Exec) pairTerm(a, b *Term) *Term {
	name := quoteName("pair:iface")
	if !x.sc.seen[name] {
		x.sc.seen[name] = true
		x.sc.emit("(declare-fun " + name + " (Int Int) Int)")
		x.sc.emit("(declare-fun |pair:fst| (Int) Int)")
		x.sc.emit("(declare-fun |pair:snd| (Int) Int)")
		x.sc.emit("(assert (forall ((a!p Int) (b!p Int)) (! (and (= (|pair:fst| (" + name + " a!p b!p)) a!p) (= (|pair:snd| (" + name + " a!p b!p)) b!p)) :pattern ((" + name + " a!p b!p)))))")
	}
	return x.sc.def(app(SInt, name, a, b), "pair")
}
