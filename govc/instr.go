package main

import (
	"go/token"
	"go/types"

	"golang.org/x/tools/go/ssa"
)

func (x *Exec) execInstr(fr *Frame, instr ssa.Instruction) {
	switch in := instr.(type) {
	case *ssa.DebugRef:
	case *ssa.Alloc:
		et := in.Type().(*types.Pointer).Elem()
		if at, ok := under(et).(*types.Array); ok {
			arr := x.allocRef()
			x.zeroElems(&SliceV{T: types.NewSlice(at.Elem()), Arr: arr, Off: tZero, Len: intLit(at.Len()), Cap: intLit(at.Len())})
			fr.env[in] = &PtrV{T: in.Type(), Kind: PArr, Base: arr, Root: et}
			break
		}
		if !in.Heap || privateAlloc(in) {
			// a local whose address does not escape (or escapes only into closures that this function itself calls
			// or defers): private heap family, invisible to contracts, frames and "modifies anything" 
			fr.env[in] = x.allocObjIn(et, in.Type(), true, "local:"+typeKey(et))
			break
		}
		fr.env[in] = x.allocObj(et, in.Type(), true)
	case *ssa.FieldAddr:
		p := x.ptrOf(x.get(fr, in.X))
		x.nonNil(p, exprName(in.X))
		np := *p
		np.T = in.Type()
		np.Path = append(append([]int{}, p.Path...), in.Field)
		fr.env[in] = &np
	case *ssa.Field:
		sv, ok := x.get(fr, in.X).(*StructV)
		if !ok {
			unsupported("Field on non-struct value")
		}
		fr.env[in] = sv.F[in.Field]
	case *ssa.IndexAddr:
		x.indexAddr(fr, in)
	case *ssa.Index:
		x.index(fr, in)
	case *ssa.UnOp:
		x.unop(fr, in)
	case *ssa.BinOp:
		fr.env[in] = x.binop(in.Op, x.get(fr, in.X), x.get(fr, in.Y), in.Type(), in.X.Type())
	case *ssa.Store:
		p := x.ptrOf(x.get(fr, in.Addr))
		x.nonNil(p, exprName(in.Addr))
		x.storeTo(p, x.get(fr, in.Val))
	case *ssa.ChangeType:
		fr.env[in] = x.retype(x.get(fr, in.X), in.Type())
	case *ssa.Convert:
		fr.env[in] = x.convert(x.get(fr, in.X), in.X.Type(), in.Type())
	case *ssa.MakeInterface:
		fr.env[in] = x.makeIface(x.get(fr, in.X), in.X.Type(), in.Type())
	case *ssa.ChangeInterface:
		v := x.get(fr, in.X).(*IfaceV)
		fr.env[in] = &IfaceV{T: in.Type(), Tag: v.Tag, Ref: v.Ref, Known: v.Known}
	case *ssa.TypeAssert:
		x.typeAssert(fr, in)
	case *ssa.Extract:
		tv, ok := x.get(fr, in.Tuple).(*TupleV)
		if !ok {
			unsupported("Extract from non-tuple")
		}
		fr.env[in] = tv.E[in.Index]
	case *ssa.Slice:
		x.sliceOp(fr, in)
	case *ssa.MakeSlice:
		n := x.intOf(fr, in.Len)
		c := x.intOf(fr, in.Cap)
		x.safety("slice", "makeslice", and(le(tZero, n), le(n, c)), "0 <= len <= cap in make")
		arr := x.allocRef()
		sv := &SliceV{T: in.Type(), Arr: arr, Off: tZero, Len: n, Cap: c}
		x.zeroElems(sv)
		fr.env[in] = sv
	case *ssa.MakeMap:
		ref := x.allocRef()
		mt := under(in.Type()).(*types.Map)
		x.mapInit(in.Type(), mt, ref)
		fr.env[in] = &Scalar{in.Type(), ref}
	case *ssa.MapUpdate:
		x.mapUpdate(fr, in)
	case *ssa.Lookup:
		x.lookup(fr, in)
	case *ssa.MakeClosure:
		fn := in.Fn.(*ssa.Function)
		var bs []Val
		for _, b := range in.Bindings {
			bs = append(bs, x.get(fr, b))
		}
		fr.env[in] = &FuncV{T: in.Type(), Id: intLit(int64(x.eng.fnID(fn))), Fn: fn, Bindings: bs}
	case *ssa.Call:
		x.tailNext = false
		if (fr.top || fr.tail) && len(fr.deferred) == 0 && len(x.scratches) == 0 && fr.scratch == nil && x.retHook != nil {
			// tail position: "t = f(...); return t"
			instrs := in.Block().Instrs
			for i, ii := range instrs {
				if ii == ssa.Instruction(in) && i+1 < len(instrs) {
					if ret, ok := instrs[i+1].(*ssa.Return); ok && len(ret.Results) == 1 && ret.Results[0] == ssa.Value(in) {
						x.tailNext = true
					}
				}
			}
		}
		r := x.doCall(fr, &in.Call, in, in.Pos())
		x.tailNext = false
		if r != nil {
			fr.env[in] = r
		}
	case *ssa.Defer:
		if in.Block() != fr.fn.Blocks[0] {
			unsupported("conditional defer in %s", shortFn(fr.fn))
		}
		fr.deferred = append(fr.deferred, in)
	case *ssa.RunDefers:
		// handled at Return (all defers are registered in the entry block)
	case *ssa.Range:
		x.rangeInit(fr, in)
	case *ssa.Next:
		x.rangeNext(fr, in)
	case *ssa.Go, *ssa.Select, *ssa.Send, *ssa.MakeChan:
		unsupported("concurrency construct %T", in)
	default:
		unsupported("instruction %T", in)
	}
}

func exprName(v ssa.Value) string {
	switch v := v.(type) {
	case *ssa.Parameter:
		return v.Name()
	case *ssa.FieldAddr:
		if st, ok := under(v.X.Type().(*types.Pointer).Elem()).(*types.Struct); ok {
			return exprName(v.X) + "." + st.Field(v.Field).Name()
		}
	case *ssa.UnOp:
		if v.Op == token.MUL {
			return exprName(v.X)
		}
	case *ssa.Call:
		if f := v.Call.StaticCallee(); f != nil {
			return f.Name() + "()"
		}
		return "call"
	case *ssa.Phi:
		if v.Comment != "" {
			return v.Comment
		}
	case *ssa.Alloc:
		if v.Comment != "" {
			return v.Comment
		}
	case *ssa.FreeVar:
		return v.Name()
	case *ssa.Extract:
		return exprName(v.Tuple)
	case *ssa.Field:
		if st, ok := under(v.X.Type()).(*types.Struct); ok {
			return exprName(v.X) + "." + st.Field(v.Field).Name()
		}
	}
	return "expr"
}

func (x *Exec) ptrOf(v Val) *PtrV {
	p, ok := v.(*PtrV)
	if !ok {
		unsupported("expected pointer, got %T", v)
	}
	return p
}

func (x *Exec) retype(v Val, t types.Type) Val {
	switch v := v.(type) {
	case *Scalar:
		return &Scalar{t, v.t}
	case *PtrV:
		n := *v
		n.T = t
		return &n
	case *StructV:
		return &StructV{t, v.F}
	case *SliceV:
		n := *v
		n.T = t
		return &n
	case *IfaceV:
		n := *v
		n.T = t
		return &n
	case *FuncV:
		n := *v
		n.T = t
		return &n
	case *ArrayV:
		return &ArrayV{t, v.E}
	}
	return v
}

// wrap performs the modular reduction of an integer result to type t.
func (x *Exec) wrap(t types.Type, v *Term, mayOverflowOnce bool) *Term {
	b, ok := under(t).(*types.Basic)
	if !ok {
		return v
	}
	r, ok := intInfo(b)
	if !ok {
		return v
	}
	v = x.sc.def(v, "a")
	m := bigLit(pow2(r.bits))
	if mayOverflowOnce {
		return x.sc.def(ite(lt(v, bigLit(r.lo)), add(v, m), ite(gt(v, bigLit(r.hi)), sub(v, m), v)), "w")
	}
	// general: ((v - lo) mod 2^bits) + lo
	return x.sc.def(add(app(SInt, "mod", sub(v, bigLit(r.lo)), m), bigLit(r.lo)), "w")
}

func (x *Exec) binop(op token.Token, a, b Val, rt types.Type, xt types.Type) Val {
	switch op {
	case token.EQL:
		return &Scalar{rt, x.eqGo(a, b)}
	case token.NEQ:
		return &Scalar{rt, not(x.eqGo(a, b))}
	}
	sa, ok1 := a.(*Scalar)
	sb, ok2 := b.(*Scalar)
	if !ok1 || !ok2 {
		unsupported("binary %s on %T", op, a)
	}
	isStr := sa.t.Sort == SString
	switch op {
	case token.ADD:
		if isStr {
			return &Scalar{rt, app(SString, "str.++", sa.t, sb.t)}
		}
		return &Scalar{rt, x.wrap(rt, add(sa.t, sb.t), true)}
	case token.SUB:
		return &Scalar{rt, x.wrap(rt, sub(sa.t, sb.t), true)}
	case token.MUL:
		if isNumeral(sa.t) || isNumeral(sb.t) {
			return &Scalar{rt, x.wrap(rt, app(SInt, "*", sa.t, sb.t), false)}
		}
		return x.freshVal(rt, "mul")
	case token.QUO:
		x.safety("div0", "", not(eq(sb.t, tZero)), "divisor != 0")
		if isNumeral(sb.t) {
			// Go truncates toward zero
			d := app(SInt, "div", app(SInt, "abs", sa.t), app(SInt, "abs", sb.t))
			neg := app(SBool, "xor", lt(sa.t, tZero), lt(sb.t, tZero))
			return &Scalar{rt, x.wrap(rt, ite(neg, app(SInt, "-", d), d), true)}
		}
		return x.freshVal(rt, "quo")
	case token.REM:
		x.safety("div0", "", not(eq(sb.t, tZero)), "divisor != 0")
		if isNumeral(sb.t) {
			m := app(SInt, "mod", app(SInt, "abs", sa.t), app(SInt, "abs", sb.t))
			return &Scalar{rt, x.sc.def(ite(lt(sa.t, tZero), app(SInt, "-", m), m), "rem")}
		}
		return x.freshVal(rt, "rem")
	case token.LSS:
		if isStr {
			return &Scalar{rt, app(SBool, "str.<", sa.t, sb.t)}
		}
		return &Scalar{rt, lt(sa.t, sb.t)}
	case token.LEQ:
		if isStr {
			return &Scalar{rt, app(SBool, "str.<=", sa.t, sb.t)}
		}
		return &Scalar{rt, le(sa.t, sb.t)}
	case token.GTR:
		if isStr {
			return &Scalar{rt, app(SBool, "str.<", sb.t, sa.t)}
		}
		return &Scalar{rt, gt(sa.t, sb.t)}
	case token.GEQ:
		if isStr {
			return &Scalar{rt, app(SBool, "str.<=", sb.t, sa.t)}
		}
		return &Scalar{rt, ge(sa.t, sb.t)}
	case token.AND, token.OR, token.XOR, token.SHL, token.SHR, token.AND_NOT:
		if sa.t.Sort == SBool {
			switch op {
			case token.AND:
				return &Scalar{rt, and(sa.t, sb.t)}
			case token.OR:
				return &Scalar{rt, or(sa.t, sb.t)}
			}
		}
		return x.freshVal(rt, "bitop") // uninterpreted (only used in hashing)
	}
	unsupported("binary operator %s", op)
	return nil
}

func isNumeral(t *Term) bool {
	if len(t.S) == 0 {
		return false
	}
	for _, c := range t.S {
		if c < '0' || c > '9' {
			return false
		}
	}
	return true
}

// eqGo: Go's == on two values.
func (x *Exec) eqGo(a, b Val) *Term {
	switch av := a.(type) {
	case *IfaceV:
		bv, ok := b.(*IfaceV)
		if !ok {
			unsupported("comparison interface with %T", b)
		}
		return and(eq(av.Tag, bv.Tag), eq(av.Ref, bv.Ref))
	case *SliceV:
		// only comparison with nil is legal
		bv := b.(*SliceV)
		if bv.Arr.S == "0" {
			return eq(av.Arr, tZero)
		}
		if av.Arr.S == "0" {
			return eq(bv.Arr, tZero)
		}
		unsupported("slice comparison")
	case *PtrV:
		bv, ok := b.(*PtrV)
		if !ok {
			unsupported("pointer comparison with %T", b)
		}
		if av.Kind == PObj && len(av.Path) == 0 && bv.Kind == PObj && len(bv.Path) == 0 {
			return eq(av.Base, bv.Base)
		}
		// interior pointer vs nil
		if bv.Kind == PObj && len(bv.Path) == 0 && bv.Base.S == "0" {
			return tFalse
		}
		if av.Kind == PObj && len(av.Path) == 0 && av.Base.S == "0" {
			return tFalse
		}
		unsupported("comparison of interior pointers")
	case *FuncV:
		bv := b.(*FuncV)
		return eq(av.Id, bv.Id)
	}
	return x.eqVal(a, b)
}

func (x *Exec) unop(fr *Frame, in *ssa.UnOp) {
	switch in.Op {
	case token.MUL:
		p := x.ptrOf(x.get(fr, in.X))
		x.nonNil(p, exprName(in.X))
		fr.env[in] = x.load(p)
	case token.NOT:
		fr.env[in] = &Scalar{in.Type(), not(x.get(fr, in.X).(*Scalar).t)}
	case token.SUB:
		fr.env[in] = &Scalar{in.Type(), x.wrap(in.Type(), app(SInt, "-", x.get(fr, in.X).(*Scalar).t), true)}
	case token.XOR:
		fr.env[in] = x.freshVal(in.Type(), "compl")
	default:
		unsupported("unary operator %s", in.Op)
	}
}

func (x *Exec) convert(v Val, from, to types.Type) Val {
	fu, tu := under(from), under(to)
	if fb, ok := fu.(*types.Basic); ok {
		if tb, ok := tu.(*types.Basic); ok {
			s := v.(*Scalar)
			switch {
			case fb.Info()&types.IsInteger != 0 && tb.Info()&types.IsInteger != 0:
				fr, _ := intInfo(fb)
				tr, _ := intInfo(tb)
				if fr.bits <= tr.bits && (fr.signed == tr.signed || (!fr.signed && fr.bits < tr.bits)) {
					return &Scalar{to, s.t}
				}
				if fr.bits == tr.bits {
					return &Scalar{to, x.wrap(to, s.t, true)}
				}
				return &Scalar{to, x.wrap(to, s.t, false)}
			case fb.Info()&types.IsString != 0 && tb.Info()&types.IsString != 0:
				return &Scalar{to, s.t}
			case fb.Info()&types.IsInteger != 0 && tb.Info()&types.IsString != 0:
				// string(rune)
				return x.freshVal(to, "runestr")
			case fb.Info()&types.IsFloat != 0 || tb.Info()&types.IsFloat != 0:
				return x.freshVal(to, "float")
			}
		}
		// string -> []byte / []rune
		if _, ok := tu.(*types.Slice); ok && fb.Info()&types.IsString != 0 {
			s := v.(*Scalar)
			arr := x.allocRef()
			n := app(SInt, "str.len", s.t)
			sv := &SliceV{T: to, Arr: arr, Off: tZero, Len: n, Cap: n}
			if eb, ok := under(tu.(*types.Slice).Elem()).(*types.Basic); ok && eb.Kind() == types.Uint8 {
				// contents: bytes of the string
				l := loc{"elem:" + typeKey(tu.(*types.Slice).Elem()), arrSort(SInt, arrSort(SInt, SInt)), nil}
				h := x.heapArr(x.st, l)
				inner := x.sc.fresh(arrSort(SInt, SInt), "strbytes")
				i := &Term{"i!q", SInt}
				x.sc.assume(&Term{"(forall ((i!q Int)) (! (=> (and (<= 0 i!q) (< i!q " + n.S + ")) (= (select " + inner.S + " i!q) (str.to_code (str.at " + s.t.S + " i!q)))) :pattern ((select " + inner.S + " i!q))))", SBool})
				_ = i
				x.noteWrite(l.key, []*Term{arr})
				x.st.heap[l.key] = x.sc.def(store(h, arr, inner), "H")
			}
			return sv
		}
	}
	if _, ok := fu.(*types.Slice); ok {
		if tb, ok := tu.(*types.Basic); ok && tb.Info()&types.IsString != 0 {
			// []byte -> string: opaque string of the same length
			sv := v.(*SliceV)
			r := x.sc.fresh(SString, "bytestr")
			x.sc.assume(eq(app(SInt, "str.len", r), sv.Len))
			// contents byte-wise
			l := loc{"elem:" + typeKey(fu.(*types.Slice).Elem()), arrSort(SInt, arrSort(SInt, SInt)), nil}
			h := x.heapArr(x.st, l)
			inner := x.sc.def(sel(h, sv.Arr), "inner")
			x.sc.assume(&Term{"(forall ((i!q Int)) (! (=> (and (<= 0 i!q) (< i!q " + sv.Len.S + ")) (= (str.to_code (str.at " + r.S + " i!q)) (select " + inner.S + " (+ " + sv.Off.S + " i!q)))) :pattern ((str.at " + r.S + " i!q))))", SBool})
			return &Scalar{to, r}
		}
	}
	if _, ok := tu.(*types.Pointer); ok {
		return x.retype(v, to)
	}
	unsupported("conversion %s -> %s", typeKey(from), typeKey(to))
	return nil
}

// ---------------------------------------------------------------------------
// interfaces

func isPointerLike(t types.Type) bool {
	switch under(t).(type) {
	case *types.Pointer, *types.Map, *types.Signature, *types.Chan:
		return true
	}
	return false
}

func (x *Exec) boxFn(t types.Type) string { return quoteName("box:" + typeKey(t)) }

func (x *Exec) makeIface(v Val, from, to types.Type) Val {
	if types.IsInterface(from) {
		iv := v.(*IfaceV)
		return &IfaceV{T: to, Tag: iv.Tag, Ref: iv.Ref, Known: iv.Known}
	}
	tag := intLit(int64(x.eng.tagOf(from)))
	if p, ok := v.(*PtrV); ok {
		if p.Kind == PObj && len(p.Path) == 0 {
			return &IfaceV{T: to, Tag: tag, Ref: p.Base, Known: v}
		}
		// interior pointer in an interface: only usable while statically known
		return &IfaceV{T: to, Tag: tag, Ref: x.sc.fresh(SInt, "iptr"), Known: v}
	}
	if isPointerLike(from) {
		ts := x.flattenOrNil(v)
		if ts != nil {
			return &IfaceV{T: to, Tag: tag, Ref: ts[0], Known: v}
		}
		return &IfaceV{T: to, Tag: tag, Ref: x.sc.fresh(SInt, "fnref"), Known: v}
	}
	// value type: ref = box_T(leaves), negative, injective
	ts := x.flatten(v)
	ref := x.boxTerm(from, ts)
	return &IfaceV{T: to, Tag: tag, Ref: ref, Known: v}
}

func (x *Exec) flattenOrNil(v Val) (ts []*Term) {
	defer func() {
		if r := recover(); r != nil {
			if _, ok := r.(*UnsupportedErr); ok {
				ts = nil
				return
			}
			panic(r)
		}
	}()
	return x.flatten(v)
}

func (x *Exec) boxTerm(t types.Type, ts []*Term) *Term {
	ls := leavesOf(t)
	name := x.boxFn(t)
	if !x.sc.seen[name] {
		x.sc.seen[name] = true
		sig := ""
		for _, l := range ls {
			sig += string(l.sort) + " "
		}
		x.sc.emit("(declare-fun " + name + " (" + sig + ") Int)")
		for i, l := range ls {
			x.sc.emit("(declare-fun " + x.unboxFn(t, i) + " (Int) " + string(l.sort) + ")")
		}
	}
	if len(ts) == 0 {
		return x.sc.def(&Term{name, SInt}, "box")
	}
	ref := x.sc.def(app(SInt, name, ts...), "box")
	var cs []*Term
	cs = append(cs, lt(ref, tZero))
	for i, l := range ls {
		cs = append(cs, eq(app(l.sort, x.unboxFn(t, i), ref), ts[i]))
	}
	x.sc.assume(and(cs...))
	return ref
}

func (x *Exec) unboxFn(t types.Type, i int) string {
	return quoteName("unbox:" + typeKey(t) + ":" + string(rune('a'+i)))
}

// unbox: the value of dynamic type t held by interface ref.
func (x *Exec) unbox(t types.Type, ref *Term) Val {
	if isPointerLike(t) {
		return x.scalarVal(t, ref)
	}
	ls := leavesOf(t)
	x.boxTerm(t, nil) // make sure functions are declared
	ts := make([]*Term, len(ls))
	for i, l := range ls {
		ts[i] = x.sc.def(app(l.sort, x.unboxFn(t, i), ref), "unbox")
	}
	// surjectivity instance: ref is the box of its contents
	if len(ts) > 0 {
		x.assumeHere(and(eq(ref, app(SInt, x.boxFn(t), ts...)), lt(ref, tZero)))
	}
	v, _ := x.unflatten(t, ts)
	x.assumeTypeInv(v, x.st.guard)
	return v
}

func (x *Exec) typeAssert(fr *Frame, in *ssa.TypeAssert) {
	iv, ok := x.get(fr, in.X).(*IfaceV)
	if !ok {
		unsupported("TypeAssert on non-interface")
	}
	at := in.AssertedType
	var okT *Term
	var val Val
	if types.IsInterface(at) {
		// interface-to-interface: holds iff dynamic type implements at
		tags := x.eng.implementers(at)
		if it := under(at).(*types.Interface); it.NumMethods() == 0 {
			okT = not(eq(iv.Tag, tZero))
		} else if tags == nil {
			okT = x.sc.fresh(SBool, "implements")
			x.sc.assume(implies(okT, not(eq(iv.Tag, tZero))))
		} else {
			var alts []*Term
			for _, tg := range tags {
				alts = append(alts, eq(iv.Tag, intLit(int64(tg))))
			}
			okT = or(alts...)
		}
		val = &IfaceV{T: at, Tag: iv.Tag, Ref: iv.Ref, Known: iv.Known}
	} else {
		tag := intLit(int64(x.eng.tagOf(at)))
		okT = eq(iv.Tag, tag)
		if iv.Known != nil && types.Identical(iv.Known.Type(), at) {
			val = iv.Known
		} else {
			val = x.unbox(at, iv.Ref)
		}
	}
	okT = x.sc.def(okT, "taok")
	if in.CommaOk {
		zero := x.zeroVal(at)
		var r Val
		if iv.Known != nil && isLitTrue(x.simplifyEq(okT)) {
			r = val
		} else {
			r = x.iteValSafe(okT, val, zero)
		}
		fr.env[in] = &TupleV{T: in.Type(), E: []Val{r, &Scalar{types.Typ[types.Bool], okT}}}
		return
	}
	x.safety("type-assert", typeKey(at), okT, "dynamic type is "+typeKey(at))
	fr.env[in] = val
}

func (x *Exec) simplifyEq(t *Term) *Term { return t }

// iteValSafe: like iteVal but tolerates statically-known values that cannot be
// flattened (interior pointers, closures) by keeping the known side.
func (x *Exec) iteValSafe(c *Term, a, b Val) (r Val) {
	defer func() {
		if rec := recover(); rec != nil {
			if _, ok := rec.(*UnsupportedErr); ok {
				r = a
				return
			}
			panic(rec)
		}
	}()
	return x.iteVal(c, a, b)
}

// ---------------------------------------------------------------------------
// slices, strings, arrays

func (x *Exec) elemLoc(sv *SliceV) (types.Type, *PtrV) {
	et := under(sv.T).(*types.Slice).Elem()
	return et, &PtrV{T: types.NewPointer(et), Kind: PElem, Base: sv.Arr, Root: et}
}

func (x *Exec) indexAddr(fr *Frame, in *ssa.IndexAddr) {
	i := x.intOf(fr, in.Index)
	switch xv := x.get(fr, in.X).(type) {
	case *SliceV:
		x.safety("index", exprName(in.X), and(le(tZero, i), lt(i, xv.Len)), "0 <= index < len("+exprName(in.X)+")")
		et, p := x.elemLoc(xv)
		p.Idx = x.sc.def(add(xv.Off, i), "ix")
		p.T = types.NewPointer(et)
		fr.env[in] = p
	case *PtrV: // pointer to array
		if xv.Kind == PArr {
			at := under(xv.Root).(*types.Array)
			x.safety("index", exprName(in.X), and(le(tZero, i), lt(i, intLit(at.Len()))), "0 <= index < array length")
			fr.env[in] = &PtrV{T: in.Type(), Kind: PElem, Base: xv.Base, Idx: i, Root: at.Elem()}
			break
		}
		at, ok := under(pointeeType(xv)).(*types.Array)
		if !ok {
			unsupported("IndexAddr on pointer to non-array")
		}
		if !isNumeral(i) {
			unsupported("symbolic index into fixed array")
		}
		x.nonNil(xv, exprName(in.X))
		var n int64
		for _, c := range i.S {
			n = n*10 + int64(c-'0')
		}
		x.safety("index", exprName(in.X), boolLit(n < at.Len()), "index < array length")
		np := *xv
		np.T = in.Type()
		np.Path = append(append([]int{}, xv.Path...), int(n))
		fr.env[in] = &np
	default:
		unsupported("IndexAddr on %T", xv)
	}
}

func (x *Exec) index(fr *Frame, in *ssa.Index) {
	i := x.intOf(fr, in.Index)
	switch xv := x.get(fr, in.X).(type) {
	case *Scalar: // string
		n := app(SInt, "str.len", xv.t)
		x.safety("index", exprName(in.X), and(le(tZero, i), lt(i, n)), "0 <= index < len(string)")
		fr.env[in] = &Scalar{in.Type(), x.sc.def(app(SInt, "str.to_code", app(SString, "str.at", xv.t, i)), "ch")}
		x.assumeHere(and(le(tZero, fr.env[in].(*Scalar).t), le(fr.env[in].(*Scalar).t, intLit(255))))
	case *ArrayV:
		if !isNumeral(i) {
			unsupported("symbolic index into array value")
		}
		var n int
		for _, c := range i.S {
			n = n*10 + int(c-'0')
		}
		fr.env[in] = xv.E[n]
	default:
		unsupported("Index on %T", xv)
	}
}

func (x *Exec) sliceOp(fr *Frame, in *ssa.Slice) {
	var lo, hi, max *Term
	if in.Low != nil {
		lo = x.intOf(fr, in.Low)
	}
	if in.High != nil {
		hi = x.intOf(fr, in.High)
	}
	if in.Max != nil {
		max = x.intOf(fr, in.Max)
	}
	switch xv := x.get(fr, in.X).(type) {
	case *SliceV:
		if lo == nil {
			lo = tZero
		}
		if hi == nil {
			hi = xv.Len
		}
		cp := xv.Cap
		if max != nil {
			x.safety("slice", exprName(in.X), and(le(hi, max), le(max, xv.Cap)), "high <= max <= cap")
			cp = max
		}
		x.safety("slice", exprName(in.X), and(le(tZero, lo), le(lo, hi), le(hi, xv.Cap)), "0 <= low <= high <= cap("+exprName(in.X)+")")
		fr.env[in] = &SliceV{T: in.Type(), Arr: xv.Arr, Off: x.sc.def(add(xv.Off, lo), "off"), Len: x.sc.def(sub(hi, lo), "len"), Cap: x.sc.def(sub(cp, lo), "cap")}
	case *Scalar: // string
		n := app(SInt, "str.len", xv.t)
		if lo == nil {
			lo = tZero
		}
		if hi == nil {
			hi = n
		}
		x.safety("slice", exprName(in.X), and(le(tZero, lo), le(lo, hi), le(hi, n)), "0 <= low <= high <= len(string)")
		fr.env[in] = &Scalar{in.Type(), x.sc.def(app(SString, "str.substr", xv.t, lo, sub(hi, lo)), "substr")}
	case *PtrV: // pointer to array -> slice
		if xv.Kind != PArr {
			unsupported("slicing a pointer to an array that is not a local backing store")
		}
		at := under(xv.Root).(*types.Array)
		n := intLit(at.Len())
		if lo == nil {
			lo = tZero
		}
		if hi == nil {
			hi = n
		}
		x.safety("slice", exprName(in.X), and(le(tZero, lo), le(lo, hi), le(hi, n)), "0 <= low <= high <= array length")
		fr.env[in] = &SliceV{T: in.Type(), Arr: xv.Base, Off: lo, Len: x.sc.def(sub(hi, lo), "len"), Cap: x.sc.def(sub(n, lo), "cap")}
	default:
		unsupported("Slice on %T", xv)
	}
}

// zeroElems sets all elements of a freshly allocated backing array to zero.
func (x *Exec) zeroElems(sv *SliceV) {
	et, p := x.elemLoc(sv)
	for _, lf := range leavesOf(et) {
		l := x.locOf(&PtrV{Kind: PElem, Base: sv.Arr, Idx: tZero, Root: et}, lf)
		h := x.heapArr(x.st, l)
		var z *Term
		switch lf.sort {
		case SInt:
			z = tZero
		case SBool:
			z = tFalse
		case SString:
			z = strLit("")
		}
		inner := app(arrSort(SInt, lf.sort), "(as const "+string(arrSort(SInt, lf.sort))+")", z)
		x.noteWrite(l.key, []*Term{sv.Arr})
		x.st.heap[l.key] = x.sc.def(store(h, sv.Arr, inner), "H")
	}
	_ = p
}

// privateAlloc: the variable's address is used only by loads/stores/field accesses and as a binding of closures
// that are themselves only called or deferred here (never passed on as values).
func privateAlloc(a *ssa.Alloc) bool {
	var addrOK func(v ssa.Value, depth int) bool
	addrOK = func(v ssa.Value, depth int) bool {
		if depth > 6 || v.Referrers() == nil {
			return false
		}
		for _, r := range *v.Referrers() {
			switch r := r.(type) {
			case *ssa.Store:
				if r.Addr != v {
					return false // the address itself is stored somewhere
				}
			case *ssa.UnOp, *ssa.DebugRef:
			case *ssa.FieldAddr:
				if !addrOK(r, depth+1) {
					return false
				}
			case *ssa.IndexAddr:
				if !addrOK(r, depth+1) {
					return false
				}
			case *ssa.MakeClosure:
				if r.Referrers() == nil {
					return false
				}
				for _, cr := range *r.Referrers() {
					switch cr := cr.(type) {
					case *ssa.Defer:
						if cr.Call.Value != ssa.Value(r) {
							return false
						}
					case *ssa.Call:
						if cr.Call.Value != ssa.Value(r) {
							return false
						}
					default:
						return false
					}
				}
			default:
				return false
			}
		}
		return true
	}
	return addrOK(a, 0)
}
