package main

// replayModel turns a solver model of a function's entry state into a run of
// the real code. Implemented per package where the entry state can be built
// (scanner: see replay_scanner.go); empty string = no replay available.
func replayModel(eng *Engine, u *Unit, ob *Obligation, verifDir string) string {
	return ""
}
