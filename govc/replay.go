package main

import (
	_ "embed"
	"encoding/json"
	"fmt"
	"os"
	"os/exec"
	"path/filepath"
	"strings"
)

//go:embed replay_scanner_test.go.tmpl
var replayScannerSrc string

//go:embed replay_repeat_test.go.tmpl
var replayRepeatSrc string

//go:embed replay_faults_test.go.tmpl
var replayFaultsSrc string

//go:embed replay_openapi_test.go.tmpl
var replayOpenAPISrc string

// replayOpenAPI: C17 - export documents with the real code (injected test in package kit).
func replayOpenAPI(eng *Engine) string {
	return runKitReplay(eng, replayOpenAPISrc, "zz_govc_openapi_test.go", "TestGovcOpenAPIReplay", "OpenAPI export of documents on the real code (package kit):")
}

//go:embed replay_gen_test.go.tmpl
var replayGenSrc string

// genFor: the document generator as a file of the given package
func genFor(pkg string) string { return strings.ReplaceAll(replayGenSrc, "@PKG@", pkg) }

//go:embed replay_tree_test.go.tmpl
var replayTreeSrc string

// treeChecks: BOUNDED oracles that rewrite corpus documents at directive boundaries taken from the tree the real scanning
// phase builds (package core overlay; see the template). Never counted as proved.
func (e *Engine) treeChecks(id string) []fdResult {
	type orc struct{ oracle, name, goal string }
	var list []orc
	split := orc{"SPLIT", "core.JApiCore/bounded/tree-include-split#1", "every directive subtree (any depth) of the accepted corpus documents moved into an INCLUDEd file - with and without a final line break -, two sibling subtrees moved into two files, and the children of a directive moved - in an explicit ( ) context that begins the included file - into an INCLUDEd file (about 15 000 splits): same catalog bytes"}
	parens := orc{"PARENS", "core.JApiCore/bounded/tree-explicit-context#1", "the children of every directive with an implicit context put into an explicit ( ) context (about 540 rewrites): same catalog bytes"}
	layout := orc{"LAYOUT", "core.JApiCore/bounded/tree-layout#1", "blank lines, '#', '##' and '###' comments in front of every directive line, blanks appended to directive lines, two more columns of indentation (about 20 000 rewrites): same catalog bytes"}
	splitrej := orc{"SPLITREJ", "core.JApiCore/bounded/tree-include-split-rejected#1", "every top-level directive subtree of the corpus documents that a rule check rejects (4 built-in ones and the err_*.jst documents of /repo/testdata that pass the scanning phase; about 240 splits) moved into an INCLUDEd file: the project is rejected with the same message at the corresponding line of the file that now holds the directive"}
	switch id {
	case "C09":
		list = []orc{split, splitrej}
	case "C11":
		list = []orc{parens, split}
	case "C08":
		list = []orc{parens, layout}
	case "C12":
		// a directive that an inserted comment line swallows is missing from the lexeme stream: same oracle, under C12
		list = []orc{layout}
	}
	var res []fdResult
	for _, o := range list {
		os.Setenv("GOVC_ORACLE", o.oracle)
		out := runPkgReplayFiles(e, "core", map[string]string{"zz_govc_tree_test.go": replayTreeSrc, "zz_govc_gen_test.go": genFor("core")}, "TestGovcTreeOracle", "tree oracle "+o.oracle+" on the real builder (package core):")
		res = append(res, fdResult{Name: o.name, Props: []string{id}, Goal: "BOUNDED (5 built-in documents, 40-120 generated documents and the accepted documents of /repo/testdata without INCLUDE/MACRO, directive boundaries from the scanned tree): " + o.goal + " (bounded sample, not a proof)",
			OK: strings.Contains(out, "DONE tried=") && !strings.Contains(out, "REPRODUCED input"), Detail: out})
	}
	return res
}

//go:embed replay_scancorpus_test.go.tmpl
var replayScanCorpusSrc string

// scanCorpusChecks: BOUNDED run of the C12/C13 monitor of the scanner replay over the documents of /repo/testdata, their
// prefixes and (thorough) their single-byte edits. Never counted as proved.
func (e *Engine) scanCorpusChecks(id, tier string) []fdResult {
	if id != "C12" && id != "C13" {
		return nil
	}
	os.Unsetenv("GOVC_DEEP")
	if tier == "thorough" {
		os.Setenv("GOVC_DEEP", "1")
	}
	out := runPkgReplayFiles(e, "scanner", map[string]string{"zz_govc_replay_test.go": replayScannerSrc, "zz_govc_scancorpus_test.go": replayScanCorpusSrc, "zz_govc_gen_test.go": genFor("scanner")},
		"TestGovcScanCorpus", "C12/C13 monitor on the real scanner over the corpus:")
	return []fdResult{{Name: "scanner.Scanner/bounded/corpus-lexeme-monitor#1", Props: []string{id},
		Goal: "BOUNDED (every document of /repo/testdata and 200 generated documents, every prefix of those up to 800 bytes, every keyword followed by every byte value; thorough: 6000 bytes and every single-byte deletion / 15 substitutions per byte of those up to 400 bytes): the scanner fails with an error index inside the file or yields lexemes inside the file, in text order, not overlapping, well-bracketed per directive; only the language's keywords are accepted, each followed by a separator (bounded sample, not a proof)",
		OK:   strings.Contains(out, "DONE tried=") && !strings.Contains(out, "REPRODUCED input"), Detail: out}}
}

func runPkgReplayFiles(eng *Engine, pkgDir string, files map[string]string, test, title string) string {
	tmp, err := os.MkdirTemp("", "govcreplay")
	if err != nil {
		return ""
	}
	defer os.RemoveAll(tmp)
	repl := map[string]string{}
	for file, src := range files {
		testFile := filepath.Join(tmp, file)
		_ = os.WriteFile(testFile, []byte(src), 0o644)
		repl[filepath.Join(eng.repo, pkgDir, file)] = testFile
	}
	ovb, _ := json.Marshal(map[string]map[string]string{"Replace": repl})
	ovFile := filepath.Join(tmp, "overlay.json")
	_ = os.WriteFile(ovFile, ovb, 0o644)
	cmd := exec.Command("go", "test", "-overlay", ovFile, "-vet=off", "-count=1", "-timeout", "900s", "-v", "-run", test, "./"+pkgDir)
	cmd.Dir = eng.repo
	cmd.Env = append(os.Environ(), "GOFLAGS=-mod=mod", "GOPROXY=off", "GOSUMDB=off", "GOTOOLCHAIN=local",
		"GOVC_REPO_TESTDATA="+filepath.Join(eng.repo, "testdata"))
	outB, _ := cmd.CombinedOutput()
	var keep []string
	for _, l := range strings.Split(string(outB), "\n") {
		if strings.HasPrefix(l, "GOVC ") {
			keep = append(keep, l[5:])
		}
	}
	if len(keep) == 0 {
		return "replay harness produced no result:\n" + string(outB)
	}
	return title + "\n" + strings.Join(keep, "\n") + "\n"
}

//go:embed replay_corpus_test.go.tmpl
var replayCorpusSrc string

// corpusChecks: BOUNDED oracles on the real builder (package kit) over the built-in documents and the documents of
// /repo/testdata; each states a clause of the property for every document of the corpus (see the template). Never counted
// as proved.
func (e *Engine) corpusChecks(id, tier string) []fdResult {
	goals := map[string][2]string{
		"C01": {"kit.NewJapi/bounded/corpus-no-panic#1", "every document of the corpus, every prefix of the documents up to 800 bytes (thorough: 6000 bytes, and every single-byte deletion and 13 substitutions per byte of the documents up to 500 bytes) builds to a catalog or an error - no panic, no hang"},
		"C05": {"kit.JApi.ToJson/bounded/corpus-cross-references#1", "the serialised catalog of every accepted corpus document satisfies the statement of C05 literally: key == id == fields, tags <-> interactions exactly once under the right protocol, usedUserTypes/usedUserEnums defined, pathVariables == {parameters}, response codes 100-599 with a body, JSIGHT 0.3"},
		"C06": {"kit.NewJApiFromFile/bounded/corpus-built-twice#1", "every corpus document (accepted or rejected) built twice in one process gives the same bytes or the same error (message, file, index, line, column, trace); the source bytes are not written"},
		"C07": {"kit.NewJapi/bounded/corpus-error-locations#1", "every error of the rejected corpus documents names a file, an index not beyond it, the line/column the dependency computes for that index and the text of that line as quote"},
		"C08": {"kit.NewJApiFromFile/bounded/corpus-blank-and-comment-lines#1", "blank lines, '#' comments and '###' block comments inserted between the top-level blocks of the accepted corpus documents leave the catalog unchanged; the rejected corpus documents rewritten with CRLF and with CR line ends are rejected with the same message, line and quote (two recorded documents apart: known finding D31)"},
		"C09": {"kit.NewJapi/bounded/corpus-include-split#1", "moving 1-3 consecutive top-level blocks of an accepted corpus document into an INCLUDEd file gives the same catalog bytes"},
		"C10": {"kit.NewJApiFromFile/bounded/corpus-paste-expansion#1", "replacing every PASTE of a corpus document by the re-indented body of its MACRO and deleting the MACRO blocks gives the same catalog bytes; undefined and pasted cyclic macros are errors"},
		"C19": {"kit.NewJApiFromFile/bounded/corpus-banned-kinds#1", "for every accepted corpus document and each of the 31 directive kinds: banning a kind that occurs is rejected with the not-allowed error on an occurrence; banning a kind that does not occur gives the same catalog bytes"},
	}
	goals["C14"] = [2]string{"kit.NewJapi/bounded/include-arrangements#1", "56 INCLUDE arrangements on disk (INCLUDE in 11 positions where a directive may start - root, URL, method, response, Request, inside their parentheses, after a Description text, in a MACRO body - with an existing file and with a refused parameter; parameters with '..', '.', an absolute path, a backslash or nothing are refused at the INCLUDE although the file they name exists; a missing file and a directory are errors at the INCLUDE; cycles not through the root are recursion errors; several files, one file several times and names relative to the including file are accepted and resolved against the right directory)"}
	g, ok := goals[id]
	if !ok {
		return nil
	}
	os.Setenv("GOVC_ORACLE", id)
	os.Unsetenv("GOVC_DEEP")
	if tier == "thorough" {
		os.Setenv("GOVC_DEEP", "1")
	}
	out := runKitReplay(e, replayCorpusSrc, "zz_govc_corpus_test.go", "TestGovcCorpusOracle", "corpus oracle "+id+" on the real builder (package kit):")
	res := []fdResult{{Name: g[0], Props: []string{id}, Goal: "BOUNDED (built-in documents, 400 generated documents and /repo/testdata): " + g[1] + " (bounded sample, not a proof)",
		OK: strings.Contains(out, "DONE tried=") && !strings.Contains(out, "REPRODUCED input"), Detail: out}}
	if id == "C06" {
		// a recorded document whose error depends on a map range inside the schema library (known finding D36)
		var tc []string
		for _, l := range strings.Split(out, "\n") {
			if strings.HasPrefix(l, "TYPECYCLE ") {
				tc = append(tc, l)
			}
		}
		res = append(res, fdResult{Name: "kit.NewJApiFromFile/bounded/type-cycle-error-choice#1", Props: []string{id},
			Goal: "BOUNDED (one document, 61 builds): a cycle of three types two of which violate a rule is rejected with the same error every time (bounded sample, not a proof)",
			OK:   strings.Contains(out, "DONE tried=") && len(tc) == 0, Detail: strings.Join(tc, "\n") + "\n"})
	}
	if id == "C08" {
		// two recorded documents whose error changes with CRLF line ends (known finding D31): an obligation of its own
		var kn []string
		for _, l := range strings.Split(out, "\n") {
			if strings.HasPrefix(l, "CRLFKNOWN ") {
				kn = append(kn, l)
			}
		}
		res = append(res, fdResult{Name: "kit.NewJApiFromFile/bounded/rejected-documents-crlf#1", Props: []string{id},
			Goal: "BOUNDED (the rejected corpus documents): with CRLF line ends a rejected document is rejected with the same message at the same line with the same quote (bounded sample, not a proof)",
			OK:   strings.Contains(out, "DONE tried=") && len(kn) == 0, Detail: strings.Join(kn, "\n") + "\n"})
	}
	if id == "C14" {
		// cycles through the root file are a recorded class (known finding D29): an obligation of its own
		var rc []string
		for _, l := range strings.Split(out, "\n") {
			if strings.HasPrefix(l, "ROOTCYCLE ") {
				rc = append(rc, l)
			}
		}
		res = append(res, fdResult{Name: "kit.NewJapi/bounded/include-cycle-through-root#1", Props: []string{id},
			Goal: "BOUNDED (2 projects): a cycle of INCLUDEs that passes through the root file is reported as the recursion error (bounded sample, not a proof)",
			OK:   strings.Contains(out, "DONE tried=") && len(rc) == 0, Detail: strings.Join(rc, "\n") + "\n"})
	}
	if id == "C07" {
		os.Setenv("GOVC_ORACLE", "TRACE")
		out2 := runKitReplay(e, replayCorpusSrc, "zz_govc_corpus_test.go", "TestGovcCorpusOracle", "include-trace oracle on the real builder (package kit):")
		res = append(res, fdResult{Name: "kit.NewJapi/bounded/include-trace#1", Props: []string{id},
			Goal: "BOUNDED (3 projects: a scan-phase and two build-phase errors in a file reached through three nested INCLUDEs): the error names that file and line, and the trace lists the three INCLUDE directives innermost first, each with its line (bounded sample, not a proof)",
			OK:   strings.Contains(out2, "DONE tried=") && !strings.Contains(out2, "REPRODUCED input"), Detail: out2})
	}
	if id == "C06" {
		// two fresh processes: the digests of all outcomes must agree
		os.Setenv("GOVC_ORACLE", "DIGEST")
		a := runKitReplay(e, replayCorpusSrc, "zz_govc_corpus_test.go", "TestGovcCorpusOracle", "digest run 1:")
		b := runKitReplay(e, replayCorpusSrc, "zz_govc_corpus_test.go", "TestGovcCorpusOracle", "digest run 2:")
		one := func(out string) (map[string]string, string) {
			m := map[string]string{}
			dg := ""
			for _, l := range strings.Split(out, "\n") {
				if strings.HasPrefix(l, "ONE ") {
					if i := strings.LastIndex(l, " "); i > 4 {
						m[l[4:i]] = l[i+1:]
					}
				}
				if strings.HasPrefix(l, "DIGEST ") {
					dg = l
				}
			}
			return m, dg
		}
		ma, da := one(a)
		mb, db := one(b)
		detail := "run 1: " + da + "\nrun 2: " + db + "\n"
		ok := da != "" && da == db
		if da != "" && db != "" && da != db {
			for k, v := range ma {
				if mb[k] != v {
					detail += "REPRODUCED input=file:" + k + " : two fresh processes build this document to different results\n"
					break
				}
			}
		}
		res = append(res, fdResult{Name: "kit.NewJApiFromFile/bounded/corpus-two-processes#1", Props: []string{id},
			Goal: "BOUNDED (about 1000 corpus documents, accepted and rejected): two fresh processes produce the same catalog bytes / the same error text for every document (bounded sample, not a proof)",
			OK:   ok, Detail: detail})
	}
	if id == "C05" {
		// documents without any directive are a recorded class (known finding D28): an obligation of its own
		var nd []string
		for _, l := range strings.Split(out, "\n") {
			if strings.HasPrefix(l, "NODIRECTIVE ") {
				nd = append(nd, l)
			}
		}
		res = append(res, fdResult{Name: "kit.JApi.ToJson/bounded/no-directive-document#1", Props: []string{id},
			Goal: "BOUNDED (3 documents without any directive): an accepted document has the JSIGHT version 0.3 in its catalog (bounded sample, not a proof)",
			OK:   strings.Contains(out, "DONE tried=") && len(nd) == 0, Detail: strings.Join(nd, "\n") + "\n"})
	}
	return res
}

//go:embed replay_descend_test.go.tmpl
var replayDescEndSrc string

// descEndChecks: BOUNDED check of the real scanner under C13 and C12 (see the template).
func (e *Engine) descEndChecks(id string) []fdResult {
	if id != "C13" && id != "C12" && id != "C11" {
		return nil
	}
	out := runPkgReplay(e, "scanner", replayDescEndSrc, "zz_govc_descend_test.go", "TestGovcDescriptionEnd", "keywords after a Description text on the real scanner:")
	return []fdResult{{Name: "scanner.Scanner/bounded/description-end#1", Props: []string{id},
		Goal: "BOUNDED (30 keywords and the codes 100-599, 3 continuations each; 6 near-misses): a line of an unparenthesised Description text that begins with a keyword or a response code ends the text and is reported as that keyword; a closing parenthesis after the text closes the context whatever follows it on its line (7 tails) (bounded sample, not a proof)",
		OK:   strings.Contains(out, "DONE tried=") && !strings.Contains(out, "REPRODUCED input"), Detail: out}}
}

//go:embed replay_quote_test.go.tmpl
var replayQuoteSrc string

// quoteChecks: BOUNDED check of the real jerr.quote / NewLocation under C07 (see the template).
func (e *Engine) quoteChecks(id string) []fdResult {
	if id != "C07" {
		return nil
	}
	out := runPkgReplay(e, "jerr", replayQuoteSrc, "zz_govc_quote_test.go", "TestGovcQuote", "quotes and line/column on the real jerr functions:")
	return []fdResult{{Name: "jerr.quote/bounded/quote-is-the-line#1", Props: []string{id},
		Goal: "BOUNDED (14 contents with LF, CR, CRLF and mixed line breaks x every index): the quote is the text of the line the index lies on - the line notion of the dependency's LineAndColumn - and Line/Column are those of exactly that index (bounded sample, not a proof)",
		OK:   strings.Contains(out, "DONE tried=") && !strings.Contains(out, "REPRODUCED input"), Detail: out}}
}

//go:embed replay_layout_test.go.tmpl
var replayLayoutSrc string

// layoutChecks: BOUNDED check of the real scanner under C08 and C12 (see the template).
func (e *Engine) layoutChecks(id string) []fdResult {
	if id != "C08" && id != "C12" {
		return nil
	}
	out := runPkgReplayEnv(e, "scanner", replayLayoutSrc, "zz_govc_layout_test.go", "TestGovcLayout", "line-end rewrites on the real scanner:")
	return []fdResult{{Name: "scanner.Scanner/bounded/line-ends#1", Props: []string{id},
		Goal: "BOUNDED (built-in and testdata documents; all line ends LF -> CRLF / CR, and for 60 documents each single line end): rewriting line ends changes neither the lexeme kinds nor the keywords and parameters reported (bounded sample, not a proof)",
		OK:   strings.Contains(out, "DONE tried=") && !strings.Contains(out, "REPRODUCED input"), Detail: out}}
}

func runPkgReplayEnv(eng *Engine, pkgDir, src, file, test, title string) string {
	os.Setenv("GOVC_REPO_TESTDATA", filepath.Join(eng.repo, "testdata"))
	return runPkgReplay(eng, pkgDir, src, file, test, title)
}

//go:embed replay_usedtypes_test.go.tmpl
var replayUsedTypesSrc string

// usedTypesChecks: BOUNDED check of the real ExchangeContent.ToUsedUserTypes under C05 (see the template).
func (e *Engine) usedTypesChecks(id string) []fdResult {
	if id != "C05" {
		return nil
	}
	out := runPkgReplay(e, "catalog", replayUsedTypesSrc, "zz_govc_usedtypes_test.go", "TestGovcUsedUserTypes", "mixed shortcuts on the real ToUsedUserTypes:")
	return []fdResult{{Name: "(*catalog.ExchangeContent).ToUsedUserTypes/bounded/used-user-types#1", Props: []string{id},
		Goal: "BOUNDED (49 shortcut values: 4 names x 6 spellings of the bar x 2 paddings): an inherited mixed shortcut records exactly the user type names it refers to (bounded sample, not a proof)",
		OK:   strings.Contains(out, "DONE tried=") && !strings.Contains(out, "REPRODUCED input"), Detail: out}}
}

//go:embed replay_quoted_test.go.tmpl
var replayQuotedSrc string

// quotedParamChecks: BOUNDED check of the real scanner under C08 and C12 (see the template).
func (e *Engine) quotedParamChecks(id string) []fdResult {
	if id != "C08" && id != "C12" {
		return nil
	}
	out := runPkgReplay(e, "scanner", replayQuotedSrc, "zz_govc_quoted_test.go", "TestGovcQuotedParams", "bare and quoted parameters on the real scanner:")
	r := fdResult{Name: "scanner.Scanner/bounded/quoted-parameter#1", Props: []string{id},
		Goal: "BOUNDED (30 bare/quoted document pairs: 6 notation/type parameters x 5 directive positions): quoting a parameter does not change the lexemes the scanner reports (bounded sample, not a proof)",
		OK:   strings.Contains(out, "DONE tried=") && !strings.Contains(out, "REPRODUCED input"), Detail: out}
	return []fdResult{r}
}

func runPkgReplay(eng *Engine, pkgDir, src, file, test, title string) string {
	tmp, err := os.MkdirTemp("", "govcreplay")
	if err != nil {
		return ""
	}
	defer os.RemoveAll(tmp)
	testFile := filepath.Join(tmp, file)
	_ = os.WriteFile(testFile, []byte(src), 0o644)
	ov := map[string]map[string]string{"Replace": {filepath.Join(eng.repo, pkgDir, file): testFile}}
	ovb, _ := json.Marshal(ov)
	ovFile := filepath.Join(tmp, "overlay.json")
	_ = os.WriteFile(ovFile, ovb, 0o644)
	cmd := exec.Command("go", "test", "-overlay", ovFile, "-vet=off", "-count=1", "-timeout", "120s", "-v", "-run", test, "./"+pkgDir)
	cmd.Dir = eng.repo
	cmd.Env = append(os.Environ(), "GOFLAGS=-mod=mod", "GOPROXY=off", "GOSUMDB=off", "GOTOOLCHAIN=local")
	outB, _ := cmd.CombinedOutput()
	var keep []string
	for _, l := range strings.Split(string(outB), "\n") {
		if strings.HasPrefix(l, "GOVC ") {
			keep = append(keep, l[5:])
		}
	}
	if len(keep) == 0 {
		return "replay harness produced no result:\n" + string(outB)
	}
	return title + "\n" + strings.Join(keep, "\n") + "\n"
}

// replayFaults: C03 - build single-fault documents with the real code (injected test in package kit) and report a
// document whose fault is accepted or located on another line.
func replayFaults(eng *Engine) string {
	return runKitReplay(eng, replayFaultsSrc, "zz_govc_faults_test.go", "TestGovcFaultReplay", "single-fault documents on the real builder (package kit):")
}

func runKitReplay(eng *Engine, src, file, test, title string) string {
	tmp, err := os.MkdirTemp("", "govcreplay")
	if err != nil {
		return ""
	}
	defer os.RemoveAll(tmp)
	testFile := filepath.Join(tmp, file)
	_ = os.WriteFile(testFile, []byte(src), 0o644)
	genFile := filepath.Join(tmp, "zz_govc_gen_test.go")
	_ = os.WriteFile(genFile, []byte(genFor("kit")), 0o644)
	ov := map[string]map[string]string{"Replace": {filepath.Join(eng.repo, "kit", file): testFile, filepath.Join(eng.repo, "kit", "zz_govc_gen_test.go"): genFile}}
	ovb, _ := json.Marshal(ov)
	ovFile := filepath.Join(tmp, "overlay.json")
	_ = os.WriteFile(ovFile, ovb, 0o644)
	cmd := exec.Command("go", "test", "-overlay", ovFile, "-vet=off", "-count=1", "-timeout", "900s", "-v", "-run", test, "./kit")
	cmd.Dir = eng.repo
	cmd.Env = append(os.Environ(), "GOFLAGS=-mod=mod", "GOPROXY=off", "GOSUMDB=off", "GOTOOLCHAIN=local",
		"GOVC_REPO_TESTDATA="+filepath.Join(eng.repo, "testdata"))
	outB, _ := cmd.CombinedOutput()
	var keep []string
	for _, l := range strings.Split(string(outB), "\n") {
		if strings.HasPrefix(l, "GOVC ") {
			keep = append(keep, l[5:])
		}
	}
	if len(keep) == 0 {
		return "replay harness produced no result:\n" + string(outB)
	}
	return title + "\n" + strings.Join(keep, "\n") + "\n"
}

// replayRepeat: C16 - run the real accessors in every history of length 3 over built-in documents and the positive
// documents of /repo/testdata (injected test in package kit) and report a document on which a method's bytes change.
func replayRepeat(eng *Engine) string {
	tmp, err := os.MkdirTemp("", "govcreplay")
	if err != nil {
		return ""
	}
	defer os.RemoveAll(tmp)
	testFile := filepath.Join(tmp, "zz_govc_repeat_test.go")
	_ = os.WriteFile(testFile, []byte(replayRepeatSrc), 0o644)
	genFile := filepath.Join(tmp, "zz_govc_gen_test.go")
	_ = os.WriteFile(genFile, []byte(genFor("kit")), 0o644)
	ov := map[string]map[string]string{"Replace": {filepath.Join(eng.repo, "kit", "zz_govc_repeat_test.go"): testFile, filepath.Join(eng.repo, "kit", "zz_govc_gen_test.go"): genFile}}
	ovb, _ := json.Marshal(ov)
	ovFile := filepath.Join(tmp, "overlay.json")
	_ = os.WriteFile(ovFile, ovb, 0o644)
	cmd := exec.Command("go", "test", "-overlay", ovFile, "-vet=off", "-count=1", "-timeout", "300s", "-v", "-run", "TestGovcRepeatReplay", "./kit")
	cmd.Dir = eng.repo
	cmd.Env = append(os.Environ(), "GOFLAGS=-mod=mod", "GOPROXY=off", "GOSUMDB=off", "GOTOOLCHAIN=local",
		"GOVC_REPO_TESTDATA="+filepath.Join(eng.repo, "testdata"))
	outB, _ := cmd.CombinedOutput()
	var keep []string
	for _, l := range strings.Split(string(outB), "\n") {
		if strings.HasPrefix(l, "GOVC ") {
			keep = append(keep, l[5:])
		}
	}
	if len(keep) == 0 {
		return "replay harness produced no result:\n" + string(outB)
	}
	return "call histories on the real accessors (package kit):\n" + strings.Join(keep, "\n") + "\n"
}

// replayModel turns a failed obligation of a scanner function into a search, on the REAL scanner, for an input that
// observably violates the statement of C12/C13 (or panics): the state graph of the real scanner is explored breadth
// first in an injected in-package test (`go test -overlay`, nothing is written to /repo) to find an input prefix that
// reaches the state function of the obligation; the byte of the solver model (then every other byte) and a few
// continuations are appended, and the whole input is scanned by the real Next under a monitor of the property.
// Returns "" when no replay is available for this kind of function.
func replayModel(eng *Engine, u *Unit, ob *Obligation, verifDir string) string {
	if pkgPathOf(u.Fn) != modPath+"/scanner" || u.Fn.Signature.Recv() != nil && u.FType == nil {
		return ""
	}
	if u.FType == nil {
		return ""
	}
	cb := "0"
	for _, l := range strings.Split(ob.Model, "\n") {
		if strings.HasPrefix(l, "c = ") {
			cb = strings.TrimSpace(l[4:])
		}
	}
	tmp, err := os.MkdirTemp("", "govcreplay")
	if err != nil {
		return ""
	}
	defer os.RemoveAll(tmp)
	testFile := filepath.Join(tmp, "zz_govc_replay_test.go")
	_ = os.WriteFile(testFile, []byte(replayScannerSrc), 0o644)
	ov := map[string]map[string]string{"Replace": {filepath.Join(eng.repo, "scanner", "zz_govc_replay_test.go"): testFile}}
	ovb, _ := json.Marshal(ov)
	ovFile := filepath.Join(tmp, "overlay.json")
	_ = os.WriteFile(ovFile, ovb, 0o644)
	cmd := exec.Command("go", "test", "-overlay", ovFile, "-vet=off", "-count=1", "-timeout", "120s", "-v", "-run", "TestGovcReplay", "./scanner")
	cmd.Dir = eng.repo
	cmd.Env = append(os.Environ(), "GOFLAGS=-mod=mod", "GOPROXY=off", "GOSUMDB=off", "GOTOOLCHAIN=local",
		"GOVC_REPLAY_FN="+u.Fn.Name(), "GOVC_REPLAY_BYTE="+cb)
	outB, _ := cmd.CombinedOutput()
	var keep []string
	for _, l := range strings.Split(string(outB), "\n") {
		if strings.HasPrefix(l, "GOVC ") {
			keep = append(keep, l[5:])
		}
	}
	if len(keep) == 0 {
		return "replay harness produced no result:\n" + string(outB)
	}
	return fmt.Sprintf("search on the real scanner (state %s, model byte %s):\n%s\n", u.Fn.Name(), cb, strings.Join(keep, "\n"))
}
