package main

import (
	"fmt"
	"go/types"
	"runtime/debug"
	"sort"
	"strings"

	"golang.org/x/tools/go/ssa"
)

type Unit struct {
	Fn       *ssa.Function
	Own      *Contract // may be nil
	FType    *Contract // uniform contract of a named func type the function is converted to
	Name     string
	Props    map[string]bool
	Script   *Script
	Unsupp   string
	SpecFail string
	Assumed  []string
	Watch    []watch
	Notes    []string
}

type watch struct {
	Name string
	Term *Term
}

func (e *Engine) newUnit(fn *ssa.Function) *Unit {
	return &Unit{Fn: fn, Own: e.contractOf[fn], Name: shortFn(fn), Props: map[string]bool{}}
}

func (u *Unit) contracts() []*Contract {
	var cs []*Contract
	if u.FType != nil {
		cs = append(cs, u.FType)
	}
	if u.Own != nil {
		cs = append(cs, u.Own)
	}
	return cs
}

func (e *Engine) translate(u *Unit) {
	x := newExec(e, u.Fn)
	u.Script = x.sc
	defer func() {
		if r := recover(); r != nil {
			switch r := r.(type) {
			case *UnsupportedErr:
				u.Unsupp = r.Msg
			case *SpecErr:
				u.SpecFail = r.Msg
			default:
				u.SpecFail = fmt.Sprintf("internal error: %v\n%s", r, debug.Stack())
			}
		}
		for k := range x.assumed {
			u.Assumed = append(u.Assumed, k)
		}
		sort.Strings(u.Assumed)
		u.Notes = x.notes
	}()
	fn := u.Fn
	x.curPos = fn.Pos()
	if u.FType != nil {
		x.selfFn = intLit(int64(e.fnID(fn)))
	}
	var args []Val
	for _, p := range fn.Params {
		v := x.freshVal(p.Type(), "p_"+p.Name())
		args = append(args, v)
		for i, t := range x.flattenOrNil(v) {
			u.Watch = append(u.Watch, watch{fmt.Sprintf("%s%s", p.Name(), leavesOf(p.Type())[i].suffix), t})
		}
	}
	var bindings []Val
	for _, fv := range fn.FreeVars {
		bindings = append(bindings, x.freshVal(fv.Type(), "fv_"+fv.Name()))
	}
	x.old = x.st.clone()
	// requires
	fr0 := &Frame{fn: fn, env: map[ssa.Value]Val{}}
	for i, p := range fn.Params {
		fr0.env[p] = args[i]
	}
	for i, fv := range fn.FreeVars {
		fr0.env[fv] = bindings[i]
	}
	for _, c := range u.contracts() {
		env := x.unitEnv(fr0, c, x.st)
		for _, cl := range c.clauses("requires") {
			x.sc.assume(x.evalBool(env, cl.expr()))
		}
	}
	// watch scalar fields of pointer parameters in the pre-state
	for i, p := range fn.Params {
		if pv, ok := args[i].(*PtrV); ok && pv.Kind == PObj {
			if _, ok := under(pv.Root).(*types.Struct); ok {
				for _, lf := range leavesOf(pv.Root) {
					u.Watch = append(u.Watch, watch{p.Name() + lf.suffix, x.readLoc(x.old, x.locOf(pv, lf))})
				}
			}
		}
	}
	x.cover("cover", "pre", nil, tTrue, "precondition is satisfiable")
	res := x.run(fn, args, bindings, true)
	exit := x.st
	x.cover("cover", "return", nil, tTrue, "some return is reachable")
	// ghost assignments at exit
	for _, c := range u.contracts() {
		env := x.unitEnv(fr0, c, exit)
		x.bindResult(env, res)
		for _, cl := range c.clauses("ghost") {
			lhs, rhs := splitGhost(cl)
			p := x.evalAddr(env, parseExpr(lhs, cl.Where))
			v := x.evalExpr(env, parseExpr(rhs, cl.Where))
			x.storeTo(p, x.coerceTo(v, pointeeType(p)))
		}
	}
	for _, c := range u.contracts() {
		env := x.unitEnv(fr0, c, x.st)
		x.bindResult(env, res)
		for _, cl := range c.clauses("ensures") {
			x.oblige("post", cl.Label, clauseProps(cl, c), x.evalBool(env, cl.expr()), cl.Text)
		}
	}
	if len(u.contracts()) > 0 {
		x.frameCheck(u, fr0)
	}
}

func (x *Exec) unitEnv(fr *Frame, c *Contract, st *State) *SpecEnv {
	env := x.baseEnv(fr, st)
	env.pkgPath = c.Pkg
	if len(c.Params) > 0 {
		for i, n := range c.Params {
			if i < len(fr.fn.Params) {
				env.vars[n] = fr.env[fr.fn.Params[i]]
			}
		}
	}
	return env
}

// frameCheck: every heap entry that differs from the entry state differs only
// at locations listed in `modifies` (or at objects allocated by the function).
func (x *Exec) frameCheck(u *Unit, fr *Frame) {
	allowed := map[string][]lvLoc{}
	var props []string
	for _, c := range u.contracts() {
		env := x.unitEnv(fr, c, x.old)
		var items []string
		for _, cl := range c.clauses("modifies") {
			items = append(items, splitTop(cl.Text, ',')...)
			if len(cl.Props) > 0 {
				props = cl.Props
			}
		}
		for _, cl := range c.clauses("ghost") {
			lhs, _ := splitGhost(cl)
			items = append(items, lhs)
		}
		for _, it := range items {
			it = strings.TrimSpace(it)
			if it == "" || it == "nothing" {
				continue
			}
			if it == "anything" {
				return
			}
			for _, l := range x.lvalueLocs(env, parseExpr(it, c.Where)) {
				allowed[l.loc.key] = append(allowed[l.loc.key], l)
			}
		}
		if len(props) == 0 {
			props = c.Props
		}
	}
	if len(props) == 0 {
		props = safetyProps
	}
	var keys []string
	for k := range x.st.heap {
		keys = append(keys, k)
	}
	sort.Strings(keys)
	alloc0 := x.old.alloc
	for _, k := range keys {
		fin := x.st.heap[k]
		init := &Term{quoteName("H0" + k), x.heapSort[k]}
		if fin.S == init.S {
			continue
		}
		s := string(x.heapSort[k])
		var goal *Term
		switch {
		case !strings.HasPrefix(s, "(Array"):
			if len(allowed[k]) > 0 {
				continue
			}
			goal = eq(fin, init)
		default:
			r := &Term{"r!f", SInt}
			conds := []*Term{lt(r, alloc0)}
			var pts []lvLoc
			for _, l := range allowed[k] {
				if len(l.loc.idx) == 1 {
					conds = append(conds, not(eq(r, l.loc.idx[0])))
				} else if len(l.loc.idx) == 2 {
					pts = append(pts, l)
				}
			}
			if len(pts) == 0 {
				goal = &Term{"(forall ((r!f Int)) (=> " + and(conds...).S + " (= (select " + fin.S + " r!f) (select " + init.S + " r!f))))", SBool}
			} else {
				i := &Term{"i!f", SInt}
				var pc []*Term
				for _, l := range pts {
					pc = append(pc, not(and(eq(r, l.loc.idx[0]), eq(i, l.loc.idx[1]))))
				}
				goal = &Term{"(forall ((r!f Int) (i!f Int)) (=> " + and(append(conds, pc...)...).S + " (= (select (select " + fin.S + " r!f) i!f) (select (select " + init.S + " r!f) i!f))))", SBool}
			}
		}
		x.oblige("frame", k, props, goal, "only listed locations of "+k+" change")
	}
}
