package main

import (
	"fmt"
	"go/types"
	"runtime/debug"
	"sort"
	"strings"
	"sync"

	"golang.org/x/tools/go/ssa"
)

type Unit struct {
	patientFails int // second attempts that ended undecided (after one, the rest of the unit is not retried: it is reported anyway)
	patientMu    sync.Mutex
	Fn           *ssa.Function
	Own          *Contract // may be nil
	FType        *Contract // uniform contract of a named func type the function is converted to
	Name         string
	Props        map[string]bool
	Script       *Script
	Unsupp       string
	SpecFail     string
	Assumed      []string
	Watch        []watch
	Notes        []string
	ExternSites  int
	Sym          *Clause // two-copy unit: the symmetric clause it checks
}

type watch struct {
	Name string
	Term *Term
}

func (e *Engine) newUnit(fn *ssa.Function) *Unit {
	return &Unit{Fn: fn, Own: e.contractOf[fn], Name: shortFn(fn), Props: map[string]bool{}}
}

func (u *Unit) contracts() []*Contract {
	var cs []*Contract
	if u.FType != nil {
		cs = append(cs, u.FType)
	}
	if u.Own != nil {
		cs = append(cs, u.Own)
	}
	return cs
}

func (e *Engine) translate(u *Unit) {
	x := newExec(e, u.Fn)
	u.Script = x.sc
	defer func() {
		if r := recover(); r != nil {
			switch r := r.(type) {
			case *UnsupportedErr:
				u.Unsupp = r.Msg
			case *SpecErr:
				u.SpecFail = r.Msg
			default:
				u.SpecFail = fmt.Sprintf("internal error: %v\n%s", r, debug.Stack())
			}
		}
		for k := range x.assumed {
			u.Assumed = append(u.Assumed, k)
		}
		sort.Strings(u.Assumed)
		u.Notes = x.notes
		u.ExternSites = x.externSites
	}()
	fn := u.Fn
	x.curPos = fn.Pos()
	if u.FType != nil {
		x.selfFn = intLit(int64(e.fnID(fn)))
		x.unitFType = u.FType
	}
	if u.Own != nil && u.Own.Attrs["assumesafe"] {
		x.assumeSafe = true
		x.unitProps = u.Own.Props
	}
	var args []Val
	for _, p := range fn.Params {
		v := x.freshVal(p.Type(), "p_"+p.Name())
		args = append(args, v)
		for i, t := range x.flattenOrNil(v) {
			u.Watch = append(u.Watch, watch{fmt.Sprintf("%s%s", p.Name(), leavesOf(p.Type())[i].suffix), t})
		}
	}
	var bindings []Val
	for _, fv := range fn.FreeVars {
		bindings = append(bindings, x.freshVal(fv.Type(), "fv_"+fv.Name()))
	}
	x.old = x.st.clone()
	// requires
	fr0 := &Frame{fn: fn, env: map[ssa.Value]Val{}}
	for i, p := range fn.Params {
		fr0.env[p] = args[i]
	}
	for i, fv := range fn.FreeVars {
		fr0.env[fv] = bindings[i]
	}
	for _, c := range u.contracts() {
		env := x.unitEnv(fr0, c, x.st)
		for _, cl := range c.clauses("requires") {
			x.sc.assume(x.evalBool(env, cl.expr()))
		}
	}
	x.assumeGlobalInvs()
	// recursion measure on entry (`decreases` on the function's own contract)
	if u.Own != nil {
		env := x.unitEnv(fr0, u.Own, x.st)
		for _, cl := range u.Own.clauses("decreases") {
			for _, e := range splitTop(cl.Text, ',') {
				x.entryMeasure = append(x.entryMeasure, x.evalInt(env, parseExpr(e, cl.Where)))
			}
		}
	}
	// definitional axioms of abstract predicates (evaluated in the entry state)
	for _, c := range u.contracts() {
		env := x.unitEnv(fr0, c, x.st)
		for _, cl := range c.clauses("axiom") {
			x.sc.assume(x.evalBool(env, cl.expr()))
			x.assumed["AXIOM "+c.Target+": "+cl.Text] = true
		}
	}
	// watch scalar fields of pointer parameters in the pre-state
	for i, p := range fn.Params {
		if pv, ok := args[i].(*PtrV); ok && pv.Kind == PObj {
			if _, ok := under(pv.Root).(*types.Struct); ok {
				for _, lf := range leavesOf(pv.Root) {
					u.Watch = append(u.Watch, watch{p.Name() + lf.suffix, x.readLoc(x.old, x.locOf(pv, lf))})
				}
				// the object a non-nil pointer parameter points to is well typed on entry
				x.assumeTypeInv(x.loadIn(x.old, pv), not(eq(pv.Base, tZero)))
			}
		}
	}
	if len(u.contracts()) > 0 {
		x.frameSetup(u, fr0)
	}
	x.cover("cover", "pre", nil, tTrue, "precondition is satisfiable")
	x.retHook = func(res Val) {
		saved := x.st
		x.st = x.st.clone()
		// ghost assignments at exit
		for _, c := range u.contracts() {
			env := x.unitEnv(fr0, c, x.st)
			x.bindResult(env, res)
			for _, cl := range c.clauses("ghost") {
				lhs, rhs := splitGhost(cl)
				p := x.evalAddr(env, parseExpr(lhs, cl.Where))
				v := x.evalExpr(env, parseExpr(rhs, cl.Where))
				x.storeTo(p, x.coerceTo(v, pointeeType(p)))
			}
		}
		for _, c := range u.contracts() {
			env := x.unitEnv(fr0, c, x.st)
			x.bindResult(env, res)
			if x.retFrame != nil {
				// address-taken locals of the function are visible in its postconditions by their source name
				// (the value is the variable's address: dd.Parent reads through it)
				for v, val := range x.retFrame.env {
					if a, ok := v.(*ssa.Alloc); ok && a.Comment != "" && a.Comment != "complit" {
						if _, taken := env.vars[a.Comment]; !taken {
							env.vars[a.Comment] = val
						}
					}
				}
			}
			for _, cl := range c.clauses("ensures") {
				x.oblige("post", cl.Label, clauseProps(cl, c), x.evalBool(env, cl.expr()), cl.Text)
			}
		}
		if len(u.contracts()) > 0 {
			x.frameCheck(u, fr0)
		}
		x.st = saved
	}
	x.run(fn, args, bindings, true)
	x.st = &State{guard: tTrue, heap: x.old.heap, alloc: x.old.alloc}
	x.cover("cover", "return", nil, or(x.retGuards...), "some return is reachable")
}

func (x *Exec) unitEnv(fr *Frame, c *Contract, st *State) *SpecEnv {
	env := x.baseEnv(fr, st)
	env.pkgPath = c.Pkg
	if len(c.Params) > 0 {
		for i, n := range c.Params {
			if i < len(fr.fn.Params) {
				env.vars[n] = fr.env[fr.fn.Params[i]]
			}
		}
	}
	return env
}

// frameSetup computes the locations the unit may modify (evaluated in the entry state).
func (x *Exec) frameSetup(u *Unit, fr *Frame) {
	x.frameAllowed = map[string][]lvLoc{}
	x.frameOn = true
	var props []string
	for _, c := range u.contracts() {
		env := x.unitEnv(fr, c, x.old)
		var items []string
		for _, cl := range c.clauses("modifies") {
			items = append(items, splitTop(cl.Text, ',')...)
			if len(cl.Props) > 0 {
				props = cl.Props
			}
		}
		for _, cl := range c.clauses("ghost") {
			lhs, _ := splitGhost(cl)
			items = append(items, lhs)
		}
		for _, it := range items {
			it = strings.TrimSpace(it)
			if it == "" || it == "nothing" {
				continue
			}
			if it == "anything" {
				// only the entries named by `keeps` are checked (they must not change on objects that existed before)
				x.frameKeepOnly = map[string]bool{}
				for _, cc := range u.contracts() {
					for _, l := range x.keptKeys(cc) {
						x.frameKeepOnly[l.key] = true
						x.heapSort[l.key] = l.sort
					}
				}
				if len(x.frameKeepOnly) == 0 {
					x.frameOn = false
					return
				}
				x.frameAllowed = map[string][]lvLoc{}
				if len(props) == 0 {
					props = c.Props
				}
				if len(props) == 0 {
					props = safetyProps
				}
				x.frameProps = props
				return
			}
			for _, l := range x.lvalueLocs(env, parseExpr(it, c.Where)) {
				x.frameAllowed[l.loc.key] = append(x.frameAllowed[l.loc.key], l)
			}
		}
		if len(props) == 0 {
			props = c.Props
		}
	}
	if len(props) == 0 {
		props = safetyProps
	}
	x.frameProps = props
}

// frameGoal: heap entry `key` with current value fin differs from the entry
// state only at allowed locations or at objects allocated since. nil = no constraint.
func (x *Exec) frameGoal(k string, fin *Term) *Term {
	if !x.frameOn || strings.HasPrefix(k, "local:") {
		return nil
	}
	if x.frameKeepOnly != nil && !x.frameKeepOnly[k] {
		return nil
	}
	srt, ok := x.heapSort[k]
	if !ok {
		return nil
	}
	init := x.sc.global(quoteName("H0"+k), srt)
	if fin.S == init.S {
		return nil
	}
	allowed := x.frameAllowed[k]
	alloc0 := x.old.alloc
	s := string(srt)
	if !strings.HasPrefix(s, "(Array") {
		if len(allowed) > 0 {
			return nil
		}
		return eq(fin, init)
	}
	for _, l := range allowed {
		if len(l.loc.idx) == 0 {
			return nil // every object's entry is listed
		}
	}
	r := &Term{"r!f", SInt}
	conds := []*Term{lt(r, alloc0)}
	var pts []lvLoc
	for _, l := range allowed {
		if len(l.loc.idx) == 1 {
			conds = append(conds, not(eq(r, l.loc.idx[0])))
		} else if len(l.loc.idx) == 2 {
			pts = append(pts, l)
		}
	}
	if len(pts) == 0 {
		return &Term{"(forall ((r!f Int)) (! (=> " + and(conds...).S + " (= (select " + fin.S + " r!f) (select " + init.S + " r!f))) :pattern ((select " + fin.S + " r!f))))", SBool}
	}
	i := &Term{"i!f", SInt}
	var pc []*Term
	for _, l := range pts {
		pc = append(pc, not(and(eq(r, l.loc.idx[0]), eq(i, l.loc.idx[1]))))
	}
	return &Term{"(forall ((r!f Int) (i!f Int)) (! (=> " + and(append(conds, pc...)...).S + " (= (select (select " + fin.S + " r!f) i!f) (select (select " + init.S + " r!f) i!f))) :pattern ((select (select " + fin.S + " r!f) i!f))))", SBool}
}

func (x *Exec) frameCheck(u *Unit, fr *Frame) {
	if !x.frameOn {
		return
	}
	var keys []string
	for k := range x.st.heap {
		keys = append(keys, k)
	}
	sort.Strings(keys)
	for _, k := range keys {
		if strings.HasPrefix(k, "local:") {
			continue
		}
		if goal := x.frameGoal(k, x.st.heap[k]); goal != nil {
			x.oblige("frame", k, x.frameProps, goal, "only listed locations of "+k+" change")
		}
	}
}

// assumeGlobalInvs: facts about package-level variables that are set once by init and never reassigned.
func (x *Exec) assumeGlobalInvs() {
	for _, gi := range x.eng.specs.GlobalInvs {
		env := &SpecEnv{x: x, vars: map[string]Val{}, st: x.st, old: x.old, pkgPath: gi.Pkg}
		x.assumeHere(x.evalBool(env, gi.expr()))
		x.assumed["GLOBALINV "+gi.Body] = true
	}
}
