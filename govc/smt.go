package main

import (
	"fmt"
	"strconv"
	"strings"
)

// Sort is an SMT-LIB sort, written out.
type Sort string

const (
	SInt    Sort = "Int"
	SBool   Sort = "Bool"
	SString Sort = "String"
)

func arrSort(idx, elem Sort) Sort { return Sort("(Array " + string(idx) + " " + string(elem) + ")") }

// Term is an SMT-LIB term with its sort.
type Term struct {
	S    string
	Sort Sort
}

func (t *Term) String() string { return t.S }

var (
	tTrue  = &Term{"true", SBool}
	tFalse = &Term{"false", SBool}
	tZero  = &Term{"0", SInt}
	tOne   = &Term{"1", SInt}
)

func intLit(n int64) *Term {
	if n < 0 {
		return &Term{"(- " + strconv.FormatInt(-n, 10) + ")", SInt}
	}
	return &Term{strconv.FormatInt(n, 10), SInt}
}

func bigLit(s string) *Term {
	if strings.HasPrefix(s, "-") {
		return &Term{"(- " + s[1:] + ")", SInt}
	}
	return &Term{s, SInt}
}

func boolLit(b bool) *Term {
	if b {
		return tTrue
	}
	return tFalse
}

// strLit encodes a Go string byte-wise as an SMT-LIB string literal.
func strLit(s string) *Term {
	var b strings.Builder
	b.WriteByte('"')
	for i := 0; i < len(s); i++ {
		c := s[i]
		switch {
		case c == '"':
			b.WriteString(`""`)
		case c == '\\':
			b.WriteString(`\u{5c}`)
		case c >= 0x20 && c < 0x7f:
			b.WriteByte(c)
		default:
			fmt.Fprintf(&b, `\u{%x}`, c)
		}
	}
	b.WriteByte('"')
	return &Term{b.String(), SString}
}

func app(sort Sort, op string, args ...*Term) *Term {
	var b strings.Builder
	b.WriteByte('(')
	b.WriteString(op)
	for _, a := range args {
		b.WriteByte(' ')
		b.WriteString(a.S)
	}
	b.WriteByte(')')
	return &Term{b.String(), sort}
}

func isLitTrue(t *Term) bool  { return t.S == "true" }
func isLitFalse(t *Term) bool { return t.S == "false" }

func and(ts ...*Term) *Term {
	var out []*Term
	for _, t := range ts {
		if t == nil || isLitTrue(t) {
			continue
		}
		if isLitFalse(t) {
			return tFalse
		}
		out = append(out, t)
	}
	switch len(out) {
	case 0:
		return tTrue
	case 1:
		return out[0]
	}
	return app(SBool, "and", out...)
}

func or(ts ...*Term) *Term {
	var out []*Term
	for _, t := range ts {
		if t == nil || isLitFalse(t) {
			continue
		}
		if isLitTrue(t) {
			return tTrue
		}
		out = append(out, t)
	}
	switch len(out) {
	case 0:
		return tFalse
	case 1:
		return out[0]
	}
	return app(SBool, "or", out...)
}

func not(t *Term) *Term {
	if isLitTrue(t) {
		return tFalse
	}
	if isLitFalse(t) {
		return tTrue
	}
	if strings.HasPrefix(t.S, "(not ") {
		return &Term{t.S[5 : len(t.S)-1], SBool}
	}
	return app(SBool, "not", t)
}

func implies(a, b *Term) *Term {
	if isLitTrue(a) {
		return b
	}
	if isLitFalse(a) || isLitTrue(b) {
		return tTrue
	}
	return app(SBool, "=>", a, b)
}

func isNumLit(t *Term) bool {
	if t.Sort != SInt || len(t.S) == 0 {
		return false
	}
	for _, c := range t.S {
		if c < '0' || c > '9' {
			return false
		}
	}
	return true
}

func eq(a, b *Term) *Term {
	if a.S == b.S {
		return tTrue
	}
	if isNumLit(a) && isNumLit(b) {
		return tFalse
	}
	if a.Sort == SBool {
		if isLitTrue(a) {
			return b
		}
		if isLitTrue(b) {
			return a
		}
		if isLitFalse(a) {
			return not(b)
		}
		if isLitFalse(b) {
			return not(a)
		}
	}
	return app(SBool, "=", a, b)
}

func ite(c, a, b *Term) *Term {
	if isLitTrue(c) {
		return a
	}
	if isLitFalse(c) {
		return b
	}
	if a.S == b.S {
		return a
	}
	return app(a.Sort, "ite", c, a, b)
}

func sel(arr, idx *Term) *Term {
	return app(elemSort(arr.Sort), "select", arr, idx)
}

func store(arr, idx, v *Term) *Term {
	return app(arr.Sort, "store", arr, idx, v)
}

// elemSort returns the element sort of "(Array I E)".
func elemSort(s Sort) Sort {
	str := string(s)
	if !strings.HasPrefix(str, "(Array ") {
		panic("elemSort of non-array " + str)
	}
	// skip the index sort
	rest := str[len("(Array "):]
	i := skipSort(rest)
	e := strings.TrimSpace(rest[i:])
	return Sort(e[:len(e)-1])
}

func idxSort(s Sort) Sort {
	str := string(s)
	rest := str[len("(Array "):]
	i := skipSort(rest)
	return Sort(strings.TrimSpace(rest[:i]))
}

func skipSort(s string) int {
	if s[0] != '(' {
		i := strings.IndexAny(s, " )")
		return i
	}
	depth := 0
	for i := 0; i < len(s); i++ {
		switch s[i] {
		case '(':
			depth++
		case ')':
			depth--
			if depth == 0 {
				return i + 1
			}
		}
	}
	panic("unbalanced sort " + s)
}

func smallNum(t *Term) (int64, bool) {
	if !isNumLit(t) || len(t.S) > 15 {
		return 0, false
	}
	n, err := strconv.ParseInt(t.S, 10, 64)
	return n, err == nil
}

func add(a, b *Term) *Term {
	x, okx := smallNum(a)
	y, oky := smallNum(b)
	switch {
	case okx && oky:
		return intLit(x + y)
	case okx && x == 0:
		return b
	case oky && y == 0:
		return a
	}
	return app(SInt, "+", a, b)
}

func sub(a, b *Term) *Term {
	x, okx := smallNum(a)
	y, oky := smallNum(b)
	switch {
	case okx && oky && x >= y:
		return intLit(x - y)
	case oky && y == 0:
		return a
	}
	return app(SInt, "-", a, b)
}
func lt(a, b *Term) *Term  { return app(SBool, "<", a, b) }
func le(a, b *Term) *Term  { return app(SBool, "<=", a, b) }
func ge(a, b *Term) *Term  { return app(SBool, ">=", a, b) }
func gt(a, b *Term) *Term  { return app(SBool, ">", a, b) }

// ---------------------------------------------------------------------------
// Script: the sequence of declarations, definitions, assumptions and
// obligations of one verification unit (one function under contract).

type Obligation struct {
	Name     string // <pkg>.<func>/<kind>[/<detail>]#<n>
	Kind     string
	Func     string
	Props    []string // property tags
	Pos      string   // source position (informational only; never used for matching)
	Goal     string   // human readable
	at       int      // index into script lines where the check is placed
	Guard    *Term
	Cond     *Term
	Cover    bool // true: obligation is a reachability cover (expected sat)
	Result   string
	Solver   string
	TimeS    float64
	Model    string
	Detail   string
	Known    string // matched known finding text, if any
	Class    string // counterexample class label for known-finding matching
	Bounded  bool
	WeakOf   string // name of the obligation this one is the known-class-excluded variant of
	NoAssume bool // do not turn into an assumption after the check (pure consequences such as frame conditions)
	queryTxt string
}

type scriptLine struct {
	text string
	ob   *Obligation // non-nil: this line is an obligation placeholder
}

type Script struct {
	skip func(*Obligation) bool
	lines []scriptLine
	n     int
	obs   []*Obligation
	seen  map[string]bool // declared names
	asserted map[string]int
	timeoutMs int
	noDef int             // >0: inside a quantifier body, terms may not be named at top level
}

func newScript() *Script {
	return &Script{seen: map[string]bool{}}
}

func (sc *Script) emit(s string) { sc.lines = append(sc.lines, scriptLine{text: s}) }

func sanitize(h string) string {
	var b strings.Builder
	for _, r := range h {
		switch {
		case r >= 'a' && r <= 'z', r >= 'A' && r <= 'Z', r >= '0' && r <= '9', r == '_':
			b.WriteRune(r)
		default:
			b.WriteByte('_')
		}
	}
	s := b.String()
	if len(s) > 40 {
		s = s[:40]
	}
	return s
}

// fresh declares an unconstrained constant.
func (sc *Script) fresh(sort Sort, hint string) *Term {
	sc.n++
	name := fmt.Sprintf("%s!%d", sanitize(hint), sc.n)
	sc.emit(fmt.Sprintf("(declare-fun %s () %s)", name, sort))
	return &Term{name, sort}
}

// global declares (once) a named constant.
func (sc *Script) global(name string, sort Sort) *Term {
	if !sc.seen[name] {
		sc.seen[name] = true
		sc.emit(fmt.Sprintf("(declare-fun %s () %s)", name, sort))
	}
	return &Term{name, sort}
}

// def names a term (keeps formulas linear in size).
func (sc *Script) def(t *Term, hint string) *Term {
	if sc.noDef > 0 || len(t.S) < 24 || !strings.HasPrefix(t.S, "(") {
		return t
	}
	sc.n++
	name := fmt.Sprintf("%s!%d", sanitize(hint), sc.n)
	sc.emit(fmt.Sprintf("(define-fun %s () %s %s)", name, t.Sort, t.S))
	return &Term{name, t.Sort}
}

func (sc *Script) assume(t *Term) {
	if isLitTrue(t) {
		return
	}
	if sc.asserted == nil {
		sc.asserted = map[string]int{}
	}
	if _, dup := sc.asserted[t.S]; dup {
		return
	}
	sc.asserted[t.S] = len(sc.lines)
	sc.emit("(assert " + t.S + ")")
}

// truncate rolls the script back to n lines (scratch runs).
func (sc *Script) truncate(n int) {
	sc.lines = sc.lines[:n]
	for k, i := range sc.asserted {
		if i >= n {
			delete(sc.asserted, k)
		}
	}
}

func (sc *Script) addOb(ob *Obligation) {
	ob.at = len(sc.lines)
	sc.lines = append(sc.lines, scriptLine{ob: ob})
	sc.obs = append(sc.obs, ob)
}

const prelude = `(set-option :produce-models true)
(set-logic ALL)
`

// render produces a stand-alone query for one obligation: everything before it,
// earlier obligations turned into assumptions, then the negated goal.
func (sc *Script) render(target *Obligation) string {
	var b strings.Builder
	b.WriteString(prelude)
	for i, l := range sc.lines {
		if l.ob == nil {
			b.WriteString(l.text)
			b.WriteByte('\n')
			continue
		}
		if i == target.at {
			break
		}
		if !l.ob.Cover && !l.ob.NoAssume && !sc.foreignGoal(l.ob) {
			b.WriteString("(assert " + implies(l.ob.Guard, l.ob.Cond).S + ")\n")
		}
	}
	if target.Cover {
		b.WriteString("(assert " + and(target.Guard, target.Cond).S + ")\n")
	} else {
		b.WriteString("(assert " + and(target.Guard, not(target.Cond)).S + ")\n")
	}
	b.WriteString("(check-sat)\n")
	return b.String()
}

// foreignGoal: an end-of-path goal (postcondition, frame, invariant, termination) that belongs to another property than
// the one being checked. Such a goal is neither decided nor ASSUMED in this run: a postcondition of this property must not
// be discharged with the help of a neighbouring property's postcondition that may be failing (seed C05-7: "accepted =>
// version 0.3" held only because C03's "version != 0.3 => rejected" was assumed). Safety obligations along the path are
// still assumed - they are what the path condition after a checked access means.
func (sc *Script) foreignGoal(ob *Obligation) bool {
	if sc.skip == nil || !sc.skip(ob) {
		return false
	}
	return ob.Kind == "post" || ob.Kind == "frame" || ob.Kind == "termination" || strings.HasPrefix(ob.Kind, "inv-")
}

// renderIncremental produces one script with push/pop per obligation.
func (sc *Script) renderIncremental() string {
	var b strings.Builder
	b.WriteString(prelude)
	hasWeak := map[string]bool{}
	for _, ob := range sc.obs {
		if ob.WeakOf != "" {
			hasWeak[ob.WeakOf] = true
		}
	}
	for _, l := range sc.lines {
		if l.ob == nil {
			b.WriteString(l.text)
			b.WriteByte('\n')
			continue
		}
		ob := l.ob
		if sc.skip != nil && sc.skip(ob) {
			// not an obligation of the property being checked: not decided in this run, only assumed like every earlier one
			if !ob.Cover && !ob.NoAssume && !sc.foreignGoal(ob) {
				b.WriteString("(assert " + implies(ob.Guard, ob.Cond).S + ")\n")
			}
			continue
		}
		b.WriteString("(push 1)\n")
		short := ob.Cover || hasWeak[ob.Name]
		if ob.Cover {
			// covers are expected to be sat; with quantifiers the answer is usually unknown: do not wait for it
			b.WriteString("(set-option :timeout 1000)\n")
			b.WriteString("(assert " + and(ob.Guard, ob.Cond).S + ")\n")
		} else {
			if short {
				// an obligation with a recorded known-finding class: its class-restricted variant (next) decides;
				// the unrestricted one is expected to fail, do not wait the full timeout for it
				b.WriteString("(set-option :timeout 2000)\n")
			}
			b.WriteString("(assert " + and(ob.Guard, not(ob.Cond)).S + ")\n")
		}
		b.WriteString("(check-sat)\n(pop 1)\n")
		if short {
			b.WriteString(fmt.Sprintf("(set-option :timeout %d)\n", sc.timeoutMs))
		}
		if !ob.Cover && !ob.NoAssume {
			b.WriteString("(assert " + implies(ob.Guard, ob.Cond).S + ")\n")
		}
	}
	return b.String()
}
