package main

import (
	"fmt"
	"os"
	"go/token"
	"go/types"
	"sort"
	"strings"

	"golang.org/x/tools/go/ssa"
	"golang.org/x/tools/go/ssa/ssautil"
)

// C06, obligation kind "map-order": every `range` over a Go map in non-test code of the module must have an
// order-insensitive body. Decided mechanically on the SSA of the loop:
//   - writes inside the loop are map updates keyed by the loop key (or with a constant value), stores of constants,
//     or stores into variables private to the loop;
//   - appends are allowed only if the function sorts afterwards (a call into package sort / slices.Sort*);
//   - calls are allowed only to functions that are pure (no store, no map update, no append, no impure call, computed
//     transitively on the SSA) or whose extern contract has attribute `pure` or `commutative`;
//   - no value computed inside the loop leaves it (return of a non-constant, or a phi after the loop), because which
//     iteration produces it depends on the order.
// A loop that fails this needs an explicit `//@ maporder <func> <n> <reason>` line (an assumption, listed in the evidence) —
// or it is a violation. Also kind "global-write": no store to a package-level variable outside init functions.

type mapOrderSpec struct {
	Pkg, Func string
	N         int
	Reason    string
	Where     string
}

var mapOrderPkgs = []string{"/catalog", "/catalog/ser/openapi", "/core", "/directive", "/jerr", "/kit", "/notation", "/scanner"}

func (e *Engine) moduleFunctions() []*ssa.Function {
	var out []*ssa.Function
	for fn := range ssautil.AllFunctions(e.prog) {
		if fn.Blocks == nil {
			continue
		}
		top := fn
		for top.Parent() != nil {
			top = top.Parent()
		}
		var path string
		if top.Pkg != nil {
			path = top.Pkg.Pkg.Path()
		} else if top.Origin() != nil && top.Origin().Pkg != nil {
			path = top.Origin().Pkg.Pkg.Path()
		}
		ok := false
		for _, p := range mapOrderPkgs {
			if path == modPath+p {
				ok = true
			}
		}
		if ok && top.Synthetic == "" {
			out = append(out, fn)
		}
	}
	sort.Slice(out, func(i, j int) bool { return out[i].String() < out[j].String() })
	return out
}

// pureFns: functions with no observable write (transitively).
func (e *Engine) pureFn(fn *ssa.Function, seen map[*ssa.Function]bool, memo map[*ssa.Function]bool) bool {
	if v, ok := memo[fn]; ok {
		return v
	}
	if seen[fn] {
		return true // optimistic on cycles; the cycle's other members are checked themselves
	}
	seen[fn] = true
	full := fn.String()
	if fn.Origin() != nil {
		full = fn.Origin().String()
	}
	if c := e.specs.Externs[full]; c != nil {
		r := c.Attrs["pure"] || c.Attrs["commutative"]
		memo[fn] = r
		return r
	}
	// standard library: a fixed allow-list of side-effect-free packages (methods of the mutable Builder/Buffer excluded)
	if p := pkgPathOf(fn); p != "" && !strings.HasPrefix(p, "github.com/jsightapi/") {
		r := false
		switch p {
		case "fmt", "errors", "strings", "strconv", "bytes", "unicode", "unicode/utf8", "unicode/utf16", "path", "path/filepath", "math", "regexp", "sort", "slices", "maps":
			r = true
			if fn.Signature.Recv() != nil {
				rt := typeKey(fn.Signature.Recv().Type())
				if strings.Contains(rt, "Builder") || strings.Contains(rt, "Buffer") {
					r = false
				}
			}
			if p == "fmt" && (strings.HasPrefix(fn.Name(), "Print") || strings.HasPrefix(fn.Name(), "Fprint") || strings.HasPrefix(fn.Name(), "Scan") || strings.HasPrefix(fn.Name(), "Fscan")) {
				r = false
			}
		}
		memo[fn] = r
		return r
	}
	if fn.Blocks == nil {
		memo[fn] = false
		return false
	}
	pure := true
	for _, b := range fn.Blocks {
		for _, in := range b.Instrs {
			switch in := in.(type) {
			case *ssa.Store:
				if !localAddr(in.Addr) {
					pure = false
				}
			case *ssa.MapUpdate:
				if !localValue(in.Map) {
					pure = false
				}
			case *ssa.Go, *ssa.Send, *ssa.Defer:
				pure = false
			case *ssa.Call:
				if bi, ok := in.Call.Value.(*ssa.Builtin); ok {
					if bi.Name() == "delete" || bi.Name() == "copy" {
						pure = false
					}
					// append yields a new slice value; only its later store matters
					continue
				}
				callee := in.Call.StaticCallee()
				if callee == nil {
					if in.Call.IsInvoke() {
						recvT := in.Call.Value.Type()
						full := "(" + types.TypeString(recvT, qual) + ")." + in.Call.Method.Name()
						if c := e.specs.Externs[full]; c != nil && (c.Attrs["pure"] || c.Attrs["commutative"]) {
							continue
						}
						if typeKey(recvT) == "error" && in.Call.Method.Name() == "Error" {
							continue
						}
					}
					pure = false
					continue
				}
				if !e.pureFn(callee, seen, memo) {
					pure = false
				}
			}
		}
	}
	memo[fn] = pure
	if !pure && os.Getenv("GOVC_WHYIMPURE") != "" {
		fmt.Fprintf(os.Stderr, "impure: %s\n", shortFn(fn))
	}
	return pure
}

// localAddr: the address is (derived from) an Alloc of this function.
func localAddr(v ssa.Value) bool {
	for {
		switch a := v.(type) {
		case *ssa.Alloc:
			return true
		case *ssa.FieldAddr:
			v = a.X
		case *ssa.IndexAddr:
			v = a.X
		default:
			return false
		}
	}
}

func localValue(v ssa.Value) bool {
	switch a := v.(type) {
	case *ssa.MakeMap, *ssa.MakeSlice:
		return true
	case *ssa.UnOp:
		return a.Op == token.MUL && localAddr(a.X)
	case *ssa.Phi:
		for _, e := range a.Edges {
			if !localValue(e) {
				return false
			}
		}
		return true
	}
	return false
}

func isConstLike(v ssa.Value) bool {
	switch v := v.(type) {
	case *ssa.Const:
		return true
	case *ssa.MakeInterface:
		return isConstLike(v.X)
	case *ssa.Function:
		return true
	}
	return false
}

func (e *Engine) mapOrderChecks(id string) []fdResult {
	if id != "C06" {
		return nil
	}
	var out []fdResult
	memo := map[*ssa.Function]bool{}
	declared := map[string]*mapOrderSpec{}
	for _, m := range e.specs.MapOrder {
		declared[m.Pkg+"::"+m.Func+"#"+fmt.Sprint(m.N)] = m
	}
	used := map[string]bool{}
	nLoops := 0
	for _, fn := range e.moduleFunctions() {
		// map ranges in source order
		var ranges []*ssa.Range
		for _, b := range fn.Blocks {
			for _, in := range b.Instrs {
				if r, ok := in.(*ssa.Range); ok {
					if _, isMap := r.X.Type().Underlying().(*types.Map); isMap {
						ranges = append(ranges, r)
					}
				}
			}
		}
		for ri, r := range ranges {
			nLoops++
			name := fmt.Sprintf("%s/map-order#%d", shortFn(fn), ri+1)
			problems := e.mapLoopProblems(fn, r, memo)
			res := fdResult{Name: name, Props: []string{"C06"}, Goal: "range over " + typeKey(r.X.Type()) + " at " + e.pos(r.Pos()) + " is order-insensitive", OK: len(problems) == 0}
			if len(problems) > 0 {
				key := pkgPathOf(fn) + "::" + fnDesignator(fn) + "#" + fmt.Sprint(ri+1)
				if d := declared[key]; d != nil {
					used[key] = true
					res.OK = true
					res.Goal += " [ASSUMED by maporder declaration: " + d.Reason + "]"
					res.Detail = "assumed: " + strings.Join(problems, "; ")
				} else {
					res.Detail = strings.Join(problems, "\n")
				}
			}
			out = append(out, res)
		}
		// global writes
		if fn.Name() != "init" && !strings.HasPrefix(fn.Name(), "init#") {
			for _, b := range fn.Blocks {
				for _, in := range b.Instrs {
					if st, ok := in.(*ssa.Store); ok {
						if g := globalOf(st.Addr); g != nil && !e.onceInit(fn) {
							out = append(out, fdResult{Name: fmt.Sprintf("%s/global-write/%s#1", shortFn(fn), g.Name()), Props: []string{"C06"},
								Goal: "no store to a package-level variable outside init / sync.Once", OK: false,
								Detail: fmt.Sprintf("%s stores to package-level variable %s at %s", shortFn(fn), g.Name(), e.pos(st.Pos()))})
						}
					}
				}
			}
		}
	}
	// sequential: which of several results wins must not depend on the scheduler - the module starts no goroutine and uses
	// no channel or select (sync.Mutex/Once are fine)
	var conc []string
	for _, fn := range e.moduleFunctions() {
		for _, b := range fn.Blocks {
			for _, in := range b.Instrs {
				what := ""
				switch v := in.(type) {
				case *ssa.Go:
					what = "starts a goroutine"
				case *ssa.Send:
					what = "sends on a channel"
				case *ssa.Select:
					what = "selects on channels"
				case *ssa.MakeChan:
					what = "makes a channel"
				case *ssa.UnOp:
					if v.Op == token.ARROW {
						what = "receives from a channel"
					}
				}
				if what != "" {
					conc = append(conc, fmt.Sprintf("%s %s at %s", shortFn(fn), what, e.pos(in.Pos())))
				}
			}
		}
	}
	sort.Strings(conc)
	out = append(out, fdResult{Name: "module/sequential#1", Props: []string{"C06"}, Goal: "the module starts no goroutine and uses no channel: no result depends on scheduling",
		OK: len(conc) == 0, Detail: strings.Join(conc, "\n")})
	// no process-wide cache: sync.Pool and sync.Map keep objects between builds (a pooled object that is not reset, a
	// memoised file) - the module uses neither; package-level maps and slices are covered by global-write
	var caches []string
	for _, fn := range e.moduleFunctions() {
		for _, b := range fn.Blocks {
			for _, in := range b.Instrs {
				c, ok := in.(ssa.CallInstruction)
				if !ok {
					continue
				}
				callee := c.Common().StaticCallee()
				if callee == nil || callee.Signature.Recv() == nil {
					continue
				}
				rt := callee.Signature.Recv().Type().String()
				if rt == "*sync.Pool" || rt == "*sync.Map" {
					caches = append(caches, fmt.Sprintf("%s calls %s at %s", shortFn(fn), callee.String(), e.pos(in.Pos())))
				}
			}
		}
	}
	sort.Strings(caches)
	out = append(out, fdResult{Name: "module/no-process-wide-cache#1", Props: []string{"C06"}, Goal: "the module keeps no sync.Pool / sync.Map: nothing a build produces is handed to a later build",
		OK: len(caches) == 0, Detail: strings.Join(caches, "\n")})
	for k, d := range declared {
		if !used[k] {
			out = append(out, fdResult{Name: "maporder-declaration/" + d.Func + "#" + fmt.Sprint(d.N), Props: []string{"C06"}, Goal: "declaration matches a loop that needs it", OK: false,
				Detail: d.Where + ": maporder declaration does not match any map range that needs it (stale contract)"})
		}
	}
	if nLoops == 0 {
		out = append(out, fdResult{Name: "map-order/none", Props: []string{"C06"}, Goal: "map ranges found", OK: false, Detail: "no map range found at all"})
	}
	return out
}

func fnDesignator(fn *ssa.Function) string {
	s := shortFn(fn)
	// strip the package qualifier: "(*core.JApiCore).x" -> "(*JApiCore).x", "core.f" -> "f"
	pkg := ""
	top := fn
	for top.Parent() != nil {
		top = top.Parent()
	}
	if top.Pkg != nil {
		pkg = strings.TrimPrefix(top.Pkg.Pkg.Path(), modPath+"/")
	}
	s = strings.Replace(s, "(*"+pkg+".", "(*", 1)
	s = strings.Replace(s, "("+pkg+".", "(", 1)
	s = strings.TrimPrefix(s, pkg+".")
	return s
}

func globalOf(v ssa.Value) *ssa.Global {
	for {
		switch a := v.(type) {
		case *ssa.Global:
			return a
		case *ssa.FieldAddr:
			v = a.X
		case *ssa.IndexAddr:
			v = a.X
		default:
			return nil
		}
	}
}

// onceInit: closures passed to sync.Once.Do (lazy initialisation of a table).
func (e *Engine) onceInit(fn *ssa.Function) bool {
	if fn.Parent() == nil {
		return false
	}
	for _, b := range fn.Parent().Blocks {
		for _, in := range b.Instrs {
			if c, ok := in.(*ssa.Call); ok {
				if callee := c.Call.StaticCallee(); callee != nil && callee.String() == "(*sync.Once).Do" {
					for _, a := range c.Call.Args {
						if mc, ok := a.(*ssa.MakeClosure); ok && mc.Fn == ssa.Value(fn) {
							return true
						}
						if a == ssa.Value(fn) {
							return true
						}
					}
				}
			}
		}
	}
	return false
}

func (e *Engine) mapLoopProblems(fn *ssa.Function, r *ssa.Range, memo map[*ssa.Function]bool) []string {
	// the loop: natural loop whose head contains Next(r)
	var head *ssa.BasicBlock
	var next *ssa.Next
	for _, ref := range *r.Referrers() {
		if n, ok := ref.(*ssa.Next); ok {
			head = n.Block()
			next = n
		}
	}
	if head == nil {
		return []string{"iterator without Next"}
	}
	body := map[*ssa.BasicBlock]bool{head: true}
	for _, b := range fn.Blocks {
		for _, s := range b.Succs {
			if s == head && head.Dominates(b) {
				stack := []*ssa.BasicBlock{b}
				body[b] = true
				for len(stack) > 0 {
					n := stack[len(stack)-1]
					stack = stack[:len(stack)-1]
					for _, p := range n.Preds {
						if !body[p] {
							body[p] = true
							stack = append(stack, p)
						}
					}
				}
			}
		}
	}
	// loop key value
	var keyVal ssa.Value
	for _, ref := range *next.Referrers() {
		if ex, ok := ref.(*ssa.Extract); ok && ex.Index == 1 {
			keyVal = ex
		}
	}
	inLoop := func(v ssa.Value) bool {
		in, ok := v.(ssa.Instruction)
		return ok && body[in.Block()]
	}
	hasSort := false
	for _, b := range fn.Blocks {
		for _, in := range b.Instrs {
			if c, ok := in.(*ssa.Call); ok {
				if callee := c.Call.StaticCallee(); callee != nil && callee.Pkg != nil {
					p := callee.Pkg.Pkg.Path()
					// only a TOTAL order on the values makes the accumulation independent of the iteration order: sort.Strings /
					// sort.Ints / slices.Sort; a comparator (sort.Slice, slices.SortFunc) may call distinct values equal and
					// then keeps the order the map range produced (seed C06-10: a case-insensitive less)
					if (p == "sort" && (callee.Name() == "Strings" || callee.Name() == "Ints" || callee.Name() == "Float64s")) || (p == "slices" && callee.Name() == "Sort") {
						hasSort = true
					}
				}
			}
		}
	}
	var probs []string
	add := func(pos token.Pos, f string, a ...any) {
		probs = append(probs, fmt.Sprintf(f, a...)+" ("+e.pos(pos)+")")
	}
	for b := range body {
		for _, in := range b.Instrs {
			switch in := in.(type) {
			case *ssa.Store:
				if !(localAddr(in.Addr) && inLoop(rootAlloc(in.Addr))) && !isConstLike(in.Val) {
					if localAddr(in.Addr) && hasSort {
						continue // accumulation into a local that is sorted afterwards
					}
					add(in.Pos(), "store of a loop-dependent value to memory that outlives the iteration")
				}
			case *ssa.MapUpdate:
				if in.Key != keyVal && !isConstLike(in.Value) && !isZeroSize(in.Value.Type()) {
					add(in.Pos(), "map update whose key is not the loop key (last writer wins)")
				}
			case *ssa.Return:
				for _, rv := range in.Results {
					if !isConstLike(rv) && !definedOutside(rv, body) {
						add(in.Pos(), "return of a value computed in the loop (which iteration returns depends on the order)")
						break
					}
				}
			case *ssa.Call:
				if bi, ok := in.Call.Value.(*ssa.Builtin); ok {
					switch bi.Name() {
					case "append":
						if !hasSort {
							add(in.Pos(), "append inside the loop and the function never sorts")
						}
					case "delete":
					case "copy":
						add(in.Pos(), "copy inside the loop")
					}
					continue
				}
				callee := in.Call.StaticCallee()
				if callee == nil {
					if in.Call.IsInvoke() {
						recvT := in.Call.Value.Type()
						full := "(" + types.TypeString(recvT, qual) + ")." + in.Call.Method.Name()
						if c := e.specs.Externs[full]; c != nil && (c.Attrs["pure"] || c.Attrs["commutative"]) {
							continue
						}
						add(in.Pos(), "call of interface method %s which is not declared pure/commutative", full)
					} else {
						add(in.Pos(), "call through a function value")
					}
					continue
				}
				if !e.pureFn(callee, map[*ssa.Function]bool{}, memo) {
					add(in.Pos(), "call of %s which may write (not pure, not declared commutative)", shortFn(callee))
				}
			case *ssa.Go, *ssa.Send, *ssa.Defer, *ssa.Panic:
				add(in.Pos(), "%T inside the loop", in)
			}
		}
	}
	// values computed inside the loop and used outside it (return in an exit block, phi after the loop, ...):
	// which iteration produced them depends on the order
	for _, b := range fn.Blocks {
		if body[b] {
			continue
		}
		for _, in := range b.Instrs {
			for _, op := range in.Operands(nil) {
				if op == nil || *op == nil {
					continue
				}
				v := *op
				if isConstLike(v) || definedOutside(v, body) {
					continue
				}
				if _, isRange := v.(*ssa.Range); isRange {
					continue
				}
				if _, isSlice := v.Type().Underlying().(*types.Slice); isSlice && hasSort {
					continue // accumulated into a slice that the function sorts afterwards
				}
				add(in.Pos(), "a value computed in the loop (%s) is used after it", v.Name())
			}
		}
	}
	sort.Strings(probs)
	return probs
}

func rootAlloc(v ssa.Value) ssa.Value {
	for {
		switch a := v.(type) {
		case *ssa.FieldAddr:
			v = a.X
		case *ssa.IndexAddr:
			v = a.X
		default:
			return v
		}
	}
}

func definedOutside(v ssa.Value, body map[*ssa.BasicBlock]bool) bool {
	in, ok := v.(ssa.Instruction)
	if !ok {
		return true // parameters, constants, globals
	}
	return !body[in.Block()]
}

func isZeroSize(t types.Type) bool {
	st, ok := t.Underlying().(*types.Struct)
	return ok && st.NumFields() == 0
}
