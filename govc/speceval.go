package main

import (
	"os"
	"go/ast"
	"go/constant"
	"go/token"
	"go/types"
	"strconv"
	"strings"

	"golang.org/x/tools/go/ssa"
)

// SpecEnv: environment for evaluating a specification expression.
type SpecEnv struct {
	x       *Exec
	vars    map[string]Val
	st      *State // state in which heap reads are evaluated
	old     *State // pre-state for old(...)
	pkgPath string // package in whose scope names are resolved
	depth   int
	entry   *SpecEnv // loop invariants: environment at loop entry, for entry(e)
}

func (env *SpecEnv) with(st *State) *SpecEnv {
	n := *env
	n.st = st
	return &n
}

func (x *Exec) baseEnv(fr *Frame, st *State) *SpecEnv {
	env := &SpecEnv{x: x, vars: map[string]Val{}, st: st, old: x.old, pkgPath: pkgPathOf(fr.fn)}
	for _, p := range fr.fn.Params {
		env.vars[p.Name()] = fr.env[p]
	}
	for _, fv := range fr.fn.FreeVars {
		env.vars[fv.Name()] = fr.env[fv]
	}
	if c := x.eng.contractOf[fr.fn]; c != nil && len(c.Params) > 0 {
		for i, n := range c.Params {
			if i < len(fr.fn.Params) {
				env.vars[n] = fr.env[fr.fn.Params[i]]
			}
		}
	}
	if x.selfFn != nil {
		env.vars["self"] = &FuncV{Id: x.selfFn}
	}
	return env
}

func pkgPathOf(fn *ssa.Function) string {
	for fn.Parent() != nil {
		fn = fn.Parent()
	}
	if fn.Pkg != nil {
		return fn.Pkg.Pkg.Path()
	}
	if fn.Origin() != nil && fn.Origin().Pkg != nil {
		return fn.Origin().Pkg.Pkg.Path()
	}
	return ""
}

// specLoad: heap read in a specification. Outside quantifier bodies the value
// read is assumed well typed (ranges, 0 <= len <= cap, references allocated):
// every store of a Go value and every callee preserves this.
func (x *Exec) specLoad(env *SpecEnv, p *PtrV) Val {
	v := x.loadIn(env.st, p)
	if x.sc.noDef == 0 && env.st != nil {
		saved := x.st
		x.st = env.st
		x.assumeTypeInv(v, tTrue)
		x.st = saved
	}
	return v
}

func (x *Exec) evalBool(env *SpecEnv, e ast.Expr) *Term {
	v := x.evalExpr(env, e)
	s, ok := v.(*Scalar)
	if !ok || s.t.Sort != SBool {
		specErr("expression %s is not boolean", types.ExprString(e))
	}
	return s.t
}

func (x *Exec) evalInt(env *SpecEnv, e ast.Expr) *Term {
	v := x.evalExpr(env, e)
	s, ok := v.(*Scalar)
	if !ok || s.t.Sort != SInt {
		specErr("expression %s is not an integer", types.ExprString(e))
	}
	return s.t
}

var tInt = types.Typ[types.Int]
var tBool = types.Typ[types.Bool]

func mkBool(t *Term) Val { return &Scalar{tBool, t} }
func mkInt(t *Term) Val  { return &Scalar{tInt, t} }

// resolveType resolves a type expression written in a spec.
func (x *Exec) resolveType(pkgPath string, e ast.Expr) types.Type {
	switch e := e.(type) {
	case *ast.Ident:
		if o := types.Universe.Lookup(e.Name); o != nil {
			if tn, ok := o.(*types.TypeName); ok {
				return tn.Type()
			}
		}
		if p := x.eng.pkgs[pkgPath]; p != nil {
			if o := p.Pkg.Scope().Lookup(e.Name); o != nil {
				if tn, ok := o.(*types.TypeName); ok {
					return tn.Type()
				}
			}
		}
	case *ast.StarExpr:
		if t := x.resolveType(pkgPath, e.X); t != nil {
			return types.NewPointer(t)
		}
	case *ast.ArrayType:
		if e.Len == nil {
			if t := x.resolveType(pkgPath, e.Elt); t != nil {
				return types.NewSlice(t)
			}
		}
	case *ast.MapType:
		k, v := x.resolveType(pkgPath, e.Key), x.resolveType(pkgPath, e.Value)
		if k != nil && v != nil {
			return types.NewMap(k, v)
		}
	case *ast.StructType:
		if e.Fields == nil || len(e.Fields.List) == 0 {
			return types.NewStruct(nil, nil)
		}
	case *ast.SelectorExpr:
		if id, ok := e.X.(*ast.Ident); ok {
			if p := x.importedPkg(pkgPath, id.Name); p != nil {
				if o := p.Scope().Lookup(e.Sel.Name); o != nil {
					if tn, ok := o.(*types.TypeName); ok {
						return tn.Type()
					}
				}
			}
		}
	case *ast.ParenExpr:
		return x.resolveType(pkgPath, e.X)
	}
	return nil
}

func (x *Exec) resolveTypeStr(pkgPath, s string) types.Type {
	t := x.resolveType(pkgPath, parseExpr(s, "type "+s))
	if t == nil {
		specErr("cannot resolve type %q in %s", s, pkgPath)
	}
	return t
}

// importedPkg: package imported under `name` by the package at pkgPath (or any module package of that name).
func (x *Exec) importedPkg(pkgPath, name string) *types.Package {
	if p := x.eng.pkgs[pkgPath]; p != nil {
		for _, imp := range p.Pkg.Imports() {
			if imp.Name() == name {
				return imp
			}
		}
	}
	if tp := x.eng.tpkgs[pkgPath]; tp != nil {
		for _, f := range tp.Syntax {
			for _, is := range f.Imports {
				if is.Name != nil && is.Name.Name == name {
					path, _ := strconv.Unquote(is.Path.Value)
					if q := x.eng.pkgs[path]; q != nil {
						return q.Pkg
					}
				}
			}
		}
	}
	// fall back: any loaded package with that name inside the module or jsight-schema-core
	for path, p := range x.eng.pkgs {
		if p.Pkg.Name() == name && strings.HasPrefix(path, "github.com/jsightapi/") {
			return p.Pkg
		}
	}
	return nil
}

func (x *Exec) lookupSpecFn(pkgPath, name string) *SpecFn {
	if f := x.eng.specs.Fns[pkgPath+"::"+name]; f != nil {
		return f
	}
	return nil
}

func (x *Exec) pkgMember(env *SpecEnv, pkg *types.Package, name string) Val {
	sp := x.eng.pkgs[pkg.Path()]
	if sp == nil {
		return nil
	}
	switch m := sp.Members[name].(type) {
	case *ssa.NamedConst:
		return x.constVal(m.Value)
	case *ssa.Function:
		return &FuncV{T: m.Type(), Id: intLit(int64(x.eng.fnID(m))), Fn: m}
	case *ssa.Global:
		p := &PtrV{T: m.Type(), Kind: PGlobal, Root: m.Type().(*types.Pointer).Elem(), Global: m.Pkg.Pkg.Path() + "." + m.Name()}
		return x.loadIn(env.st, p)
	}
	return nil
}

func (x *Exec) evalExpr(env *SpecEnv, e ast.Expr) Val {
	switch e := e.(type) {
	case *ast.ParenExpr:
		return x.evalExpr(env, e.X)
	case *ast.BasicLit:
		switch e.Kind {
		case token.INT:
			return mkInt(bigLit(constant.MakeFromLiteral(e.Value, token.INT, 0).ExactString()))
		case token.CHAR:
			v := constant.MakeFromLiteral(e.Value, token.CHAR, 0)
			return mkInt(bigLit(v.ExactString()))
		case token.STRING:
			s, _ := strconv.Unquote(e.Value)
			return &Scalar{types.Typ[types.String], strLit(s)}
		}
	case *ast.Ident:
		switch e.Name {
		case "true":
			return mkBool(tTrue)
		case "false":
			return mkBool(tFalse)
		case "nil":
			return &Scalar{types.Typ[types.UntypedNil], tZero}
		}
		if v, ok := env.vars[e.Name]; ok {
			return v
		}
		if p := x.eng.pkgs[env.pkgPath]; p != nil {
			if v := x.pkgMember(env, p.Pkg, e.Name); v != nil {
				return v
			}
		}
		specErr("unknown identifier %q (package %s)", e.Name, env.pkgPath)
	case *ast.SelectorExpr:
		if id, ok := e.X.(*ast.Ident); ok {
			if _, isVar := env.vars[id.Name]; !isVar {
				if p := x.importedPkg(env.pkgPath, id.Name); p != nil {
					if v := x.pkgMember(env, p, e.Sel.Name); v != nil {
						return v
					}
					specErr("unknown member %s.%s", id.Name, e.Sel.Name)
				}
			}
		}
		base := x.evalExpr(env, e.X)
		return x.selectField(env, base, e.Sel.Name)
	case *ast.StarExpr:
		p := x.ptrOf(x.evalExpr(env, e.X))
		return x.specLoad(env, p)
	case *ast.UnaryExpr:
		switch e.Op {
		case token.NOT:
			return mkBool(not(x.evalBool(env, e.X)))
		case token.SUB:
			return mkInt(app(SInt, "-", x.evalInt(env, e.X)))
		case token.AND:
			return x.evalAddr(env, e.X)
		}
	case *ast.BinaryExpr:
		return x.evalBinary(env, e)
	case *ast.IndexExpr:
		base := x.evalExpr(env, e.X)
		switch b := base.(type) {
		case *SliceV:
			i := x.evalInt(env, e.Index)
			et, p := x.elemLoc(b)
			p.Idx = add(b.Off, i)
			_ = et
			return x.specLoad(env, p)
		case *Scalar:
			if b.t.Sort == SString {
				i := x.evalInt(env, e.Index)
				return mkInt(app(SInt, "str.to_code", app(SString, "str.at", b.t, i)))
			}
			if mt, ok := under(b.T).(*types.Map); ok {
				k := x.keyTerm(mt.Key(), x.coerceTo(x.evalExpr(env, e.Index), mt.Key()))
				return x.mapGet(env.st, b.T, mt, b.t, k)
			}
		}
		specErr("cannot index %s", types.ExprString(e.X))
	case *ast.CallExpr:
		return x.evalCall(env, e)
	}
	specErr("unsupported specification expression %s", types.ExprString(e))
	return nil
}

// coerceTo adapts an untyped spec value (nil, int literal) to a Go type.
func (x *Exec) coerceTo(v Val, t types.Type) Val {
	s, ok := v.(*Scalar)
	if !ok {
		return v
	}
	if b, ok := s.T.(*types.Basic); ok && b.Kind() == types.UntypedNil {
		return x.zeroVal(t)
	}
	if scalarSort(t) != "" {
		return x.scalarVal(t, s.t)
	}
	return v
}

// coerce adapts a to the shape of b when a is nil.
func (x *Exec) coerce(a, b Val) Val {
	if s, ok := a.(*Scalar); ok {
		if bt, ok := s.T.(*types.Basic); ok && bt.Kind() == types.UntypedNil {
			if _, isS := b.(*Scalar); !isS || b.Type() != s.T {
				if b.Type() != nil {
					return x.zeroVal(b.Type())
				}
			}
		}
	}
	return a
}

func (x *Exec) evalBinary(env *SpecEnv, e *ast.BinaryExpr) Val {
	switch e.Op {
	case token.LAND:
		return mkBool(and(x.evalBool(env, e.X), x.evalBool(env, e.Y)))
	case token.LOR:
		return mkBool(or(x.evalBool(env, e.X), x.evalBool(env, e.Y)))
	}
	a := x.evalExpr(env, e.X)
	b := x.evalExpr(env, e.Y)
	switch e.Op {
	case token.EQL, token.NEQ:
		a2, b2 := x.coerce(a, b), x.coerce(b, a)
		var t *Term
		if sa, ok := a2.(*SliceV); ok {
			// slice == nil
			if sb, ok := b2.(*SliceV); ok && sb.Arr.S == "0" {
				t = eq(sa.Arr, tZero)
			} else {
				t = x.eqVal(a2, b2)
			}
		} else {
			t = x.eqSpec(a2, b2)
		}
		if e.Op == token.NEQ {
			t = not(t)
		}
		return mkBool(t)
	}
	sa, ok1 := a.(*Scalar)
	sb, ok2 := b.(*Scalar)
	if !ok1 || !ok2 {
		specErr("operator %s on non-scalar in %s", e.Op, types.ExprString(e))
	}
	switch e.Op {
	case token.ADD:
		if sa.t.Sort == SString {
			return &Scalar{sa.T, app(SString, "str.++", sa.t, sb.t)}
		}
		return mkInt(add(sa.t, sb.t))
	case token.SUB:
		return mkInt(sub(sa.t, sb.t))
	case token.MUL:
		return mkInt(app(SInt, "*", sa.t, sb.t))
	case token.QUO:
		return mkInt(app(SInt, "div", sa.t, sb.t))
	case token.REM:
		return mkInt(app(SInt, "mod", sa.t, sb.t))
	case token.LSS:
		return mkBool(lt(sa.t, sb.t))
	case token.LEQ:
		return mkBool(le(sa.t, sb.t))
	case token.GTR:
		return mkBool(gt(sa.t, sb.t))
	case token.GEQ:
		return mkBool(ge(sa.t, sb.t))
	}
	specErr("unsupported operator %s", e.Op)
	return nil
}

func (x *Exec) eqSpec(a, b Val) *Term {
	if fa, ok := a.(*FuncV); ok {
		switch fb := b.(type) {
		case *FuncV:
			return eq(fa.Id, fb.Id)
		case *Scalar:
			return eq(fa.Id, fb.t)
		}
	}
	if sa, ok := a.(*Scalar); ok {
		switch fb := b.(type) {
		case *FuncV:
			return eq(sa.t, fb.Id)
		case *PtrV:
			return eq(sa.t, x.ptrTerm(fb))
		}
	}
	if pa, ok := a.(*PtrV); ok {
		if pa.Kind != PObj || len(pa.Path) > 0 {
			// an interior pointer is never nil
			if pb, ok := b.(*PtrV); ok && pb.Kind == PObj && len(pb.Path) == 0 && pb.Base.S == "0" {
				return tFalse
			}
			if sb, ok := b.(*Scalar); ok && sb.t.S == "0" {
				return tFalse
			}
		}
		if sb, ok := b.(*Scalar); ok {
			return eq(x.ptrTerm(pa), sb.t)
		}
	}
	return x.eqVal(a, b)
}

// selectField: x.f on a struct value or through a pointer (auto-deref), ghost fields included.
func (x *Exec) selectField(env *SpecEnv, base Val, name string) Val {
	switch b := base.(type) {
	case *PtrV:
		p := x.fieldAddr(env, b, name)
		return x.specLoad(env, p)
	case *StructV:
		st := under(b.T).(*types.Struct)
		for i := 0; i < st.NumFields(); i++ {
			if st.Field(i).Name() == name {
				return b.F[i]
			}
		}
		// promoted through embedded fields
		for i := 0; i < st.NumFields(); i++ {
			if st.Field(i).Embedded() {
				if sv, ok := b.F[i].(*StructV); ok {
					if r := x.trySelect(env, sv, name); r != nil {
						return r
					}
				}
			}
		}
	case *SliceV:
		switch name {
		case "arr":
			return mkInt(b.Arr)
		case "off":
			return mkInt(b.Off)
		}
	case *IfaceV:
		switch name {
		case "tag":
			return mkInt(b.Tag)
		case "ref":
			return mkInt(b.Ref)
		}
	}
	specErr("no field %q in %T (%s)", name, base, typeKeyOf(base))
	return nil
}

func typeKeyOf(v Val) string {
	if v == nil || v.Type() == nil {
		return "?"
	}
	return typeKey(v.Type())
}

func (x *Exec) trySelect(env *SpecEnv, sv *StructV, name string) (r Val) {
	defer func() {
		if rec := recover(); rec != nil {
			if _, ok := rec.(*SpecErr); ok {
				r = nil
				return
			}
			panic(rec)
		}
	}()
	return x.selectField(env, sv, name)
}

// ghostType: declared Go type of ghost field T.name, nil if none.
func (x *Exec) ghostField(t types.Type, name string) types.Type {
	for _, g := range x.eng.specs.Ghosts {
		if g.Name != name {
			continue
		}
		gt := x.resolveType(g.Pkg, parseExpr(g.Type, "ghost "+g.Type))
		if gt == nil {
			specErr("ghost field %s.%s: cannot resolve type %s", g.Type, g.Name, g.Type)
		}
		if types.Identical(gt, t) {
			return x.resolveTypeStr(g.Pkg, g.GoType)
		}
	}
	return nil
}

// fieldAddr: address of field `name` of the struct p points to.
func (x *Exec) fieldAddr(env *SpecEnv, p *PtrV, name string) *PtrV {
	t := pointeeType(p)
	st, ok := under(t).(*types.Struct)
	if !ok {
		specErr("selector .%s on pointer to non-struct %s", name, typeKey(t))
	}
	for i := 0; i < st.NumFields(); i++ {
		if st.Field(i).Name() == name {
			np := *p
			np.Path = append(append([]int{}, p.Path...), i)
			np.T = types.NewPointer(st.Field(i).Type())
			return &np
		}
	}
	if gt := x.ghostField(t, name); gt != nil {
		if p.Kind != PObj || len(p.Path) != 0 {
			specErr("ghost field on interior pointer")
		}
		return &PtrV{T: types.NewPointer(gt), Kind: PObj, Base: p.Base, Root: gt, Global: "ghost:" + typeKey(t) + "." + name}
	}
	for i := 0; i < st.NumFields(); i++ {
		if st.Field(i).Embedded() {
			if _, ok := under(st.Field(i).Type()).(*types.Struct); ok {
				np := *p
				np.Path = append(append([]int{}, p.Path...), i)
				if r := x.tryFieldAddr(env, &np, name); r != nil {
					return r
				}
			}
		}
	}
	specErr("no field %q in %s", name, typeKey(t))
	return nil
}

func (x *Exec) tryFieldAddr(env *SpecEnv, p *PtrV, name string) (r *PtrV) {
	defer func() {
		if rec := recover(); rec != nil {
			if _, ok := rec.(*SpecErr); ok {
				r = nil
				return
			}
			panic(rec)
		}
	}()
	return x.fieldAddr(env, p, name)
}

// evalAddr: the location denoted by an l-value expression.
func (x *Exec) evalAddr(env *SpecEnv, e ast.Expr) *PtrV {
	switch e := e.(type) {
	case *ast.ParenExpr:
		return x.evalAddr(env, e.X)
	case *ast.StarExpr:
		return x.ptrOf(x.evalExpr(env, e.X))
	case *ast.SelectorExpr:
		base := x.evalExpr(env, e.X)
		p, ok := base.(*PtrV)
		if !ok {
			// field of a struct held by value somewhere addressable
			bp := x.evalAddr(env, e.X)
			return x.fieldAddr(env, bp, e.Sel.Name)
		}
		return x.fieldAddr(env, p, e.Sel.Name)
	case *ast.IndexExpr:
		base := x.evalExpr(env, e.X)
		if b, ok := base.(*SliceV); ok {
			_, p := x.elemLoc(b)
			p.Idx = add(b.Off, x.evalInt(env, e.Index))
			return p
		}
	case *ast.Ident:
		if p := x.eng.pkgs[env.pkgPath]; p != nil {
			if g, ok := p.Members[e.Name].(*ssa.Global); ok {
				return &PtrV{T: g.Type(), Kind: PGlobal, Root: g.Type().(*types.Pointer).Elem(), Global: g.Pkg.Pkg.Path() + "." + g.Name()}
			}
		}
	}
	specErr("%s is not an l-value", types.ExprString(e))
	return nil
}

func (x *Exec) evalCall(env *SpecEnv, e *ast.CallExpr) Val {
	name := ""
	switch f := e.Fun.(type) {
	case *ast.Ident:
		name = f.Name
	case *ast.SelectorExpr:
		// pkg.Type(x) conversion or pkg.fn(...) spec function
		if id, ok := f.X.(*ast.Ident); ok {
			if p := x.importedPkg(env.pkgPath, id.Name); p != nil {
				if t := x.resolveType(env.pkgPath, f); t != nil && len(e.Args) == 1 {
					return x.coerceTo(x.evalExpr(env, e.Args[0]), t)
				}
				if fn := x.lookupSpecFn(p.Path(), f.Sel.Name); fn != nil {
					return x.applySpecFn(env, fn, e.Args)
				}
			}
		}
		specErr("unsupported call %s", types.ExprString(e))
	default:
		// conversion with a composite type expression, e.g. (*T)(x)
		if t := x.resolveType(env.pkgPath, e.Fun); t != nil && len(e.Args) == 1 {
			return x.coerceTo(x.evalExpr(env, e.Args[0]), t)
		}
		specErr("unsupported call %s", types.ExprString(e))
	}
	switch name {
	case "old":
		if env.old == nil {
			specErr("old() used where there is no pre-state")
		}
		return x.evalExpr(env.with(env.old), e.Args[0])
	case "entry":
		if env.entry == nil {
			specErr("entry() used outside of a loop invariant")
		}
		return x.evalExpr(env.entry, e.Args[0])
	case "imp":
		return mkBool(implies(x.evalBool(env, e.Args[0]), x.evalBool(env, e.Args[1])))
	case "iff":
		return mkBool(eq(x.evalBool(env, e.Args[0]), x.evalBool(env, e.Args[1])))
	case "ite":
		c := x.evalBool(env, e.Args[0])
		a := x.evalExpr(env, e.Args[1])
		b := x.evalExpr(env, e.Args[2])
		return x.iteVal(c, x.coerce(a, b), x.coerce(b, a))
	case "in":
		v := x.evalExpr(env, e.Args[0])
		var alts []*Term
		for _, a := range e.Args[1:] {
			alts = append(alts, x.eqSpec(v, x.coerce(x.evalExpr(env, a), v)))
		}
		return mkBool(or(alts...))
	case "len":
		switch v := x.evalExpr(env, e.Args[0]).(type) {
		case *SliceV:
			return mkInt(v.Len)
		case *Scalar:
			if v.t.Sort == SString {
				return mkInt(app(SInt, "str.len", v.t))
			}
			if mt, ok := under(v.T).(*types.Map); ok {
				l := x.mapLen(env.st, v.T, mt, v.t)
				if x.sc.noDef == 0 {
					x.sc.assume(and(le(tZero, l), le(l, bigLit("4611686018427387904"))))
				}
				return mkInt(l)
			}
		}
		specErr("len of %s", types.ExprString(e.Args[0]))
	case "at":
		// at(sl, k): element at absolute index k of the backing array of sl (no offset added)
		if b, ok := x.evalExpr(env, e.Args[0]).(*SliceV); ok {
			_, p := x.elemLoc(b)
			p.Idx = x.evalInt(env, e.Args[1])
			return x.specLoad(env, p)
		}
		specErr("at() on non-slice")
	case "cap":
		if v, ok := x.evalExpr(env, e.Args[0]).(*SliceV); ok {
			return mkInt(v.Cap)
		}
	case "has":
		// has(m, k): key k is in map m
		m := x.evalExpr(env, e.Args[0]).(*Scalar)
		mt, ok := under(m.T).(*types.Map)
		if !ok {
			specErr("has() on non-map")
		}
		k := x.keyTerm(mt.Key(), x.coerceTo(x.evalExpr(env, e.Args[1]), mt.Key()))
		return mkBool(x.mapHas(env.st, m.T, mt, m.t, k))
	case "forallp":
		// forallp(i, trigger, body): integer quantifier with an explicit instantiation pattern
		// leading bare identifiers are the bound variables
		nv := 0
		for nv < len(e.Args)-2 {
			if _, ok := e.Args[nv].(*ast.Ident); !ok {
				break
			}
			nv++
		}
		if nv == 0 || len(e.Args) < nv+2 {
			specErr("forallp(i [, j...], trigger..., body)")
		}
		type savedVar struct {
			name string
			v    Val
			had  bool
		}
		var savedVars []savedVar
		decl := ""
		for _, a := range e.Args[:nv] {
			id := a.(*ast.Ident)
			x.sc.n++
			qn := "q!" + id.Name + strconv.Itoa(x.sc.n)
			sv, had := env.vars[id.Name]
			savedVars = append(savedVars, savedVar{id.Name, sv, had})
			env.vars[id.Name] = x.scalarVal(tInt, &Term{qn, SInt})
			decl += "(" + qn + " Int)"
		}
		x.sc.noDef++
		var trigs []string
		for _, ta := range e.Args[nv : len(e.Args)-1] {
			trigs = append(trigs, x.flatten(x.evalExpr(env, ta))[0].S)
		}
		bt := x.evalBool(env, e.Args[len(e.Args)-1])
		x.sc.noDef--
		for _, sv := range savedVars {
			if sv.had {
				env.vars[sv.name] = sv.v
			} else {
				delete(env.vars, sv.name)
			}
		}
		return mkBool(&Term{"(forall (" + decl + ") (! " + bt.S + " :pattern (" + strings.Join(trigs, " ") + ")))", SBool})
	case "forall", "exists":
		// forall(i, body) / forall(i, T, body): i ranges over int (or T)
		id, ok := e.Args[0].(*ast.Ident)
		if !ok {
			specErr("forall: first argument must be an identifier")
		}
		var t types.Type = tInt
		body := e.Args[len(e.Args)-1]
		if len(e.Args) == 3 {
			t = x.resolveType(env.pkgPath, e.Args[1])
			if t == nil {
				specErr("forall: cannot resolve type %s", types.ExprString(e.Args[1]))
			}
		}
		sort := scalarSort(t)
		if sort == "" {
			specErr("forall over non-scalar type")
		}
		x.sc.n++
		qn := "q!" + id.Name + strconv.Itoa(x.sc.n)
		saved, had := env.vars[id.Name]
		env.vars[id.Name] = x.scalarVal(t, &Term{qn, sort})
		x.sc.noDef++
		bt := x.evalBool(env, body)
		x.sc.noDef--
		if had {
			env.vars[id.Name] = saved
		} else {
			delete(env.vars, id.Name)
		}
		return mkBool(&Term{"(" + name + " ((" + qn + " " + string(sort) + ")) " + bt.S + ")", SBool})
	case "fresh":
		// fresh(p): p was allocated after the pre-state
		p := x.evalExpr(env, e.Args[0])
		return mkBool(ge(x.flatten(p)[0], env.old.alloc))
	case "allocated":
		p := x.evalExpr(env, e.Args[0])
		return mkBool(lt(x.flatten(p)[0], env.st.alloc))
	case "typeis":
		// typeis(iface, T)
		iv, ok := x.evalExpr(env, e.Args[0]).(*IfaceV)
		if !ok {
			specErr("typeis on non-interface")
		}
		t := x.resolveType(env.pkgPath, e.Args[1])
		if t == nil {
			specErr("typeis: cannot resolve %s", types.ExprString(e.Args[1]))
		}
		return mkBool(eq(iv.Tag, intLit(int64(x.eng.tagOf(t)))))
	case "unbox":
		iv := x.evalExpr(env, e.Args[0]).(*IfaceV)
		t := x.resolveType(env.pkgPath, e.Args[1])
		return x.unbox(t, iv.Ref)
	case "str":
		// str(b): a []byte read as a string is not modelled
		specErr("str() not supported")
	case "substr":
		s := x.evalExpr(env, e.Args[0]).(*Scalar)
		return &Scalar{s.T, app(SString, "str.substr", s.t, x.evalInt(env, e.Args[1]), x.evalInt(env, e.Args[2]))}
	case "contains":
		return mkBool(app(SBool, "str.contains", x.evalExpr(env, e.Args[0]).(*Scalar).t, x.evalExpr(env, e.Args[1]).(*Scalar).t))
	case "prefixof":
		return mkBool(app(SBool, "str.prefixof", x.evalExpr(env, e.Args[0]).(*Scalar).t, x.evalExpr(env, e.Args[1]).(*Scalar).t))
	case "suffixof":
		return mkBool(app(SBool, "str.suffixof", x.evalExpr(env, e.Args[0]).(*Scalar).t, x.evalExpr(env, e.Args[1]).(*Scalar).t))
	case "char":
		// char(c): one-byte string of code c
		return &Scalar{types.Typ[types.String], app(SString, "str.from_code", x.evalInt(env, e.Args[0]))}
	}
	if fn := x.lookupSpecFn(env.pkgPath, name); fn != nil {
		return x.applySpecFn(env, fn, e.Args)
	}
	// spec functions of other packages are visible unqualified when unique
	var found *SpecFn
	for k, f := range x.eng.specs.Fns {
		if strings.HasSuffix(k, "::"+name) {
			if found != nil {
				specErr("ambiguous spec function %s", name)
			}
			found = f
		}
	}
	if found != nil {
		return x.applySpecFn(env, found, e.Args)
	}
	// conversion T(x)
	if t := x.resolveType(env.pkgPath, e.Fun); t != nil && len(e.Args) == 1 {
		return x.coerceTo(x.evalExpr(env, e.Args[0]), t)
	}
	specErr("unknown function %q in specification", name)
	return nil
}

// applySpecFn expands a pred/fn definition (macro expansion, depth-limited).
func (x *Exec) applySpecFn(env *SpecEnv, fn *SpecFn, args []ast.Expr) Val {
	if len(args) != len(fn.Params) {
		specErr("%s: %s expects %d arguments, got %d", fn.Where, fn.Name, len(fn.Params), len(args))
	}
	if env.depth > 40 {
		specErr("%s: spec function recursion too deep (%s)", fn.Where, fn.Name)
	}
	if r := x.tableApply(env, fn, args); r != nil {
		return r
	}
	if fn.Opaque {
		return x.opaqueApply(env, fn, args)
	}
	inner := &SpecEnv{x: x, vars: map[string]Val{}, st: env.st, old: env.old, pkgPath: fn.Pkg, depth: env.depth + 1, entry: env.entry}
	if s, ok := env.vars["self"]; ok {
		inner.vars["self"] = s
	}
	for i, p := range fn.Params {
		v := x.evalExpr(env, args[i])
		if t := x.resolveType(fn.Pkg, parseExpr(p.Type, fn.Where)); t != nil {
			v = x.coerceTo(v, t)
		} else {
			specErr("%s: cannot resolve parameter type %q", fn.Where, p.Type)
		}
		inner.vars[p.Name] = v
	}
	r := x.evalExpr(inner, fn.expr())
	if s, ok := r.(*Scalar); ok {
		return &Scalar{s.T, x.sc.def(s.t, fn.Name)}
	}
	return r
}

// tableApply: a one-parameter spec function over a closed-world func type whose
// body depends only on that parameter is turned into a lookup table (ground
// facts per function id) instead of a large disjunction.
func (x *Exec) tableApply(env *SpecEnv, fn *SpecFn, args []ast.Expr) Val {
	if len(fn.Params) != 1 {
		return nil
	}
	pt := x.resolveType(fn.Pkg, parseExpr(fn.Params[0].Type, fn.Where))
	var blk [2]int
	isByte := false
	if os.Getenv("GOVC_NOFNTBL") != "" {
		return nil
	}
	if bt, ok := under(pt).(*types.Basic); ok && bt.Kind() == types.Uint8 && os.Getenv("GOVC_BYTETBL") != "" {
		blk = [2]int{1, 255}
		isByte = true
	} else {
		nt, ok := pt.(*types.Named)
		if !ok || nt.Obj().Pkg() == nil {
			return nil
		}
		key := nt.Obj().Pkg().Path() + "::" + nt.Obj().Name()
		blk, ok = x.eng.ftBlock[key]
		if !ok {
			return nil
		}
	}
	rt := x.resolveType(fn.Pkg, parseExpr(fn.Result, fn.Where))
	if rt == nil {
		return nil
	}
	rsort := scalarSort(rt)
	if rsort != SBool && rsort != SInt && rsort != SString {
		return nil
	}
	ck := fn.Pkg + "::" + fn.Name
	x.eng.mu.Lock()
	rows, have := x.eng.tableCache[ck]
	x.eng.mu.Unlock()
	if !have {
		rows = x.buildTable(fn, pt, blk, isByte)
		x.eng.mu.Lock()
		x.eng.tableCache[ck] = rows
		x.eng.mu.Unlock()
	}
	if rows == nil {
		return nil
	}
	name := quoteName("tbl:" + fn.Name)
	if !x.sc.seen[name] {
		x.sc.seen[name] = true
		// Compressed macro: group the ids by value; the most frequent value is the default.
		// (Ground facts over an uninterpreted function were measured to be far slower: every
		// symbolic application has to be compared with every numeral row.)
		groups := map[string][]int{}
		var order []string
		add := func(id int, v string) {
			if _, ok := groups[v]; !ok {
				order = append(order, v)
			}
			groups[v] = append(groups[v], id)
		}
		add(0, rows[0])
		for i := blk[0]; i <= blk[1]; i++ {
			add(i, rows[i-blk[0]+1])
		}
		def := order[0]
		for _, v := range order {
			if len(groups[v]) > len(groups[def]) {
				def = v
			}
		}
		body := def
		for _, v := range order {
			if v == def {
				continue
			}
			var eqs []string
			for _, id := range groups[v] {
				eqs = append(eqs, "(= f!t "+strconv.Itoa(id)+")")
			}
			cond := eqs[0]
			if len(eqs) > 1 {
				cond = "(or " + strings.Join(eqs, " ") + ")"
			}
			body = "(ite " + cond + " " + v + " " + body + ")"
		}
		x.sc.emit("(define-fun " + name + " ((f!t Int)) " + string(rsort) + " " + body + ")")
	}
	v := x.evalExpr(env, args[0])
	var id *Term
	switch fv := v.(type) {
	case *FuncV:
		id = fv.Id
	case *Scalar:
		id = fv.t
	default:
		return nil
	}
	// a literal argument is looked up at translation time
	if n, ok := smallNum(id); ok {
		if n == 0 {
			return &Scalar{rt, &Term{rows[0], rsort}}
		}
		if int(n) >= blk[0] && int(n) <= blk[1] {
			return &Scalar{rt, &Term{rows[int(n)-blk[0]+1], rsort}}
		}
	}
	return &Scalar{rt, app(rsort, name, id)}
}

// buildTable evaluates fn's body for nil and for every member id; nil if some row is not a literal.
func (x *Exec) buildTable(fn *SpecFn, pt types.Type, blk [2]int, isByte bool) []string {
	var rows []string
	ids := []int{0}
	for i := blk[0]; i <= blk[1]; i++ {
		ids = append(ids, i)
	}
	ok := true
	func() {
		defer func() {
			if r := recover(); r != nil {
				if _, isSpec := r.(*SpecErr); isSpec {
					ok = false
					return
				}
				panic(r)
			}
		}()
		x.sc.noDef++
		defer func() { x.sc.noDef-- }()
		for _, id := range ids {
			inner := &SpecEnv{x: x, vars: map[string]Val{}, st: nil, old: nil, pkgPath: fn.Pkg, depth: 1}
			if isByte {
				inner.vars[fn.Params[0].Name] = &Scalar{pt, intLit(int64(id))}
			} else {
				inner.vars[fn.Params[0].Name] = &FuncV{T: pt, Id: intLit(int64(id))}
			}
			r := x.evalExpr(inner, fn.expr())
			s, isS := r.(*Scalar)
			if !isS || !(isLitTrue(s.t) || isLitFalse(s.t) || isNumLit(s.t) || isStrLit(s.t)) {
				ok = false
				return
			}
			rows = append(rows, s.t.S)
		}
	}()
	if !ok {
		return nil
	}
	return rows
}

// opaqueApply: a pure spec function over scalars becomes an uninterpreted SMT
// function whose definition is an axiom triggered by its applications, so that
// facts about it are passed around by congruence instead of being re-derived.
func (x *Exec) opaqueApply(env *SpecEnv, fn *SpecFn, args []ast.Expr) Val {
	rt := x.resolveType(fn.Pkg, parseExpr(fn.Result, fn.Where))
	if rt == nil || scalarSort(rt) == "" {
		specErr("%s: opaque %s needs a scalar result type", fn.Where, fn.Name)
	}
	name := quoteName("op:" + fn.Name)
	var ptypes []types.Type
	for _, p := range fn.Params {
		pt := x.resolveType(fn.Pkg, parseExpr(p.Type, fn.Where))
		if pt == nil || scalarSort(pt) == "" {
			specErr("%s: opaque %s: parameter %s must be scalar", fn.Where, fn.Name, p.Name)
		}
		ptypes = append(ptypes, pt)
	}
	if !x.sc.seen[name] {
		x.sc.seen[name] = true
		sig, decl, call := "", "", "("+name
		inner := &SpecEnv{x: x, vars: map[string]Val{}, st: nil, old: nil, pkgPath: fn.Pkg, depth: env.depth + 1}
		for i, p := range fn.Params {
			srt := scalarSort(ptypes[i])
			sig += string(srt) + " "
			vn := "a!" + p.Name
			decl += "(" + vn + " " + string(srt) + ")"
			call += " " + vn
			inner.vars[p.Name] = x.scalarVal(ptypes[i], &Term{vn, srt})
		}
		call += ")"
		x.sc.emit("(declare-fun " + name + " (" + sig + ") " + string(scalarSort(rt)) + ")")
		if fn.Abstract {
			goto declared
		}
		x.sc.noDef++
		body := x.flatten(x.evalExpr(inner, fn.expr()))[0]
		x.sc.noDef--
		x.sc.emit("(assert (forall (" + decl + ") (! (= " + call + " " + body.S + ") :pattern (" + call + "))))")
	}
declared:
	var ts []*Term
	for i, a := range args {
		v := x.coerceTo(x.evalExpr(env, a), ptypes[i])
		ts = append(ts, x.flatten(v)[0])
	}
	return x.scalarVal(rt, app(scalarSort(rt), name, ts...))
}

func isStrLit(t *Term) bool { return t.Sort == SString && strings.HasPrefix(t.S, "\"") }
