package main

import (
	"bytes"
	"context"
	"fmt"
	"os"
	"os/exec"
	"path/filepath"
	"strings"
	"sync"
	"sync/atomic"
	"time"
)

type SolverCfg struct {
	TimeoutS  int
	PatienceS int // timeout of the second attempt on an obligation no solver decided in TimeoutS (0: no second attempt)
	TmpDir    string
	All       bool // thorough: cross-check with all solvers
	// obligations recorded as open known findings: expected to stay undecided, no long second attempt
	NoPatience map[string]bool
}

type solver struct {
	name string
	args func(file string, toS int) []string
}

var solvers = []solver{
	{"z3-5.1", func(f string, t int) []string {
		return []string{"z3-new", fmt.Sprintf("-t:%d", t*1000), fmt.Sprintf("-T:%d", t*3+10), f}
	}},
	{"cvc5", func(f string, t int) []string {
		return []string{"cvc5", "--strings-exp", "--incremental", fmt.Sprintf("--tlimit-per=%d", t*1000), f}
	}},
	{"z3-4.8", func(f string, t int) []string {
		return []string{"z3", fmt.Sprintf("-t:%d", t*1000), fmt.Sprintf("-T:%d", t+2), f}
	}},
}

func runSolver(s solver, file string, toS int) (string, float64) {
	return runSolverN(s, file, toS, 1)
}

// runSolverN: nChecks check-sat commands in the file, each with soft timeout toS.
func runSolverN(s solver, file string, toS int, nChecks int) (string, float64) {
	hard := toS*3 + 20
	if nChecks > 1 {
		hard = toS*nChecks/4 + 120
		// a unit whose incremental run needs more than this is not going to be discharged (on the unchanged tree the slowest
		// unit takes a few seconds): the obligations without an answer go to the portfolio, which gives up after four failures
		if hard > 12*toS {
			hard = 12 * toS
		}
	}
	ctx, cancel := context.WithTimeout(context.Background(), time.Duration(hard)*time.Second)
	defer cancel()
	a := s.args(file, toS)
	if nChecks > 1 {
		// replace the hard -T limit
		for i := range a {
			if strings.HasPrefix(a[i], "-T:") {
				a[i] = fmt.Sprintf("-T:%d", hard)
			}
		}
	}
	cmd := exec.CommandContext(ctx, a[0], a[1:]...)
	var out bytes.Buffer
	cmd.Stdout = &out
	cmd.Stderr = &out
	t0 := time.Now()
	_ = cmd.Run()
	return out.String(), time.Since(t0).Seconds()
}

// runSolverCtx: one check-sat, cancellable (the portfolio stops the other solvers once one has decided).
func runSolverCtx(parent context.Context, s solver, file string, toS int) (string, float64) {
	hard := toS*3 + 20
	ctx, cancel := context.WithTimeout(parent, time.Duration(hard)*time.Second)
	defer cancel()
	a := s.args(file, toS)
	cmd := exec.CommandContext(ctx, a[0], a[1:]...)
	var out bytes.Buffer
	cmd.Stdout = &out
	cmd.Stderr = &out
	t0 := time.Now()
	_ = cmd.Run()
	return out.String(), time.Since(t0).Seconds()
}

func firstWord(s string) string {
	for _, l := range strings.Split(s, "\n") {
		l = strings.TrimSpace(l)
		switch l {
		case "sat", "unsat", "unknown", "timeout":
			return l
		}
	}
	return "error"
}

var tmpSeq int
var tmpMu sync.Mutex

func tmpFile(cfg *SolverCfg, content string) string {
	tmpMu.Lock()
	tmpSeq++
	n := tmpSeq
	tmpMu.Unlock()
	f := filepath.Join(cfg.TmpDir, fmt.Sprintf("q%d.smt2", n))
	_ = os.WriteFile(f, []byte(content), 0o644)
	return f
}

// solveUnit discharges the obligations of a unit.
func solveUnit(u *Unit, cfg *SolverCfg, only func(*Obligation) bool) {
	sc := u.Script
	if sc == nil || len(sc.obs) == 0 {
		return
	}
	sc.timeoutMs = cfg.TimeoutS * 1000
	sc.skip = nil
	nRun := len(sc.obs)
	if only != nil {
		sc.skip = func(ob *Obligation) bool { return !only(ob) }
		nRun = 0
		for _, ob := range sc.obs {
			if only(ob) {
				nRun++
			}
		}
	}
	if nRun == 0 {
		for _, ob := range sc.obs {
			ob.Result = "skipped"
		}
		return
	}
	inc := sc.renderIncremental()
	f := tmpFile(cfg, inc)
	out, dt := runSolverN(solvers[0], f, cfg.TimeoutS, nRun)
	os.Remove(f)
	var results []string
	for _, l := range strings.Split(out, "\n") {
		l = strings.TrimSpace(l)
		switch l {
		case "sat", "unsat", "unknown", "timeout":
			results = append(results, l)
		}
		if strings.HasPrefix(l, "(error") {
			// an error invalidates the whole incremental run
			results = nil
			for range sc.obs {
				results = append(results, "error")
			}
			u.Notes = append(u.Notes, "solver error: "+l)
			break
		}
	}
	per := dt / float64(nRun)
	if os.Getenv("GOVC_SLOW") != "" && dt > 5 {
		fmt.Fprintf(os.Stderr, "UNIT-INCREMENTAL %.1fs %d obligations %s\n", dt, nRun, u.Name)
	}
	// results come back for the obligations that were run, in order
	resOf := map[*Obligation]string{}
	ri := 0
	for _, ob := range sc.obs {
		if sc.skip != nil && sc.skip(ob) {
			resOf[ob] = "skipped"
			continue
		}
		if ri < len(results) {
			resOf[ob] = results[ri]
		} else {
			resOf[ob] = "error"
		}
		ri++
	}
	// obligations whose known-class-excluded variant is discharged need no portfolio run
	weakOK := map[string]bool{}
	for _, ob := range sc.obs {
		if ob.WeakOf != "" && resOf[ob] == "unsat" {
			weakOK[ob.WeakOf] = true
		}
	}
	var wg sync.WaitGroup
	sem := make(chan struct{}, 4)
	var nFailed int32 // obligations of this unit the portfolio could not discharge either
	for _, ob := range sc.obs {
		r := resOf[ob]
		ob.Result, ob.Solver, ob.TimeS = r, solvers[0].name, per
		if only != nil && !only(ob) {
			continue
		}
		if ob.Cover {
			if r != "unsat" {
				continue // sat or inconclusive: not vacuous as far as can be told
			}
		} else if r == "unsat" && !cfg.All {
			continue
		} else if r != "unsat" && weakOK[ob.Name] {
			ob.Result = "fails-only-in-known-class"
			continue
		}
		wg.Add(1)
		sem <- struct{}{}
		if !cfg.All && atomic.LoadInt32(&nFailed) >= 4 {
			// the unit is reported with four undischarged obligations already: the rest is not re-examined (never happens
			// on a tree where the obligations hold)
			if ob.Result == "unsat" || ob.Result == "skipped" {
				ob.Result = "unknown"
			}
			ob.Detail = "not re-examined by the portfolio: four obligations of this unit are undischarged already; first solver: " + r + "\n"
			<-sem
			wg.Done()
			continue
		}
		go func(ob *Obligation, first string) {
			defer wg.Done()
			defer func() { <-sem }()
			portfolio(u, ob, cfg, first)
			if !ob.Cover && ob.Result != "unsat" {
				atomic.AddInt32(&nFailed, 1)
			}
		}(ob, r)
	}
	wg.Wait()
}

// portfolio runs the stand-alone query of one obligation on all solvers.
func portfolio(u *Unit, ob *Obligation, cfg *SolverCfg, first string) {
	portfolioWith(u, ob, cfg, first, false)
}

func portfolioWith(u *Unit, ob *Obligation, cfg *SolverCfg, first string, patient bool) {
	q := u.Script.render(ob)
	ob.queryTxt = q
	f := tmpFile(cfg, q)
	defer os.Remove(f)
	type res struct {
		name, r, out string
		dt           float64
	}
	ch := make(chan res, len(solvers))
	pctx, stopOthers := context.WithCancel(context.Background())
	defer stopOthers()
	for _, s := range solvers {
		go func(s solver) {
			out, dt := runSolverCtx(pctx, s, f, cfg.TimeoutS)
			ch <- res{s.name, firstWord(out), out, dt}
		}(s)
	}
	var all []res
	for range solvers {
		r := <-ch
		all = append(all, r)
		if !cfg.All && (r.r == "unsat" || r.r == "sat") {
			// decided: do not wait for the other solvers to run into their timeouts (thorough waits: it cross-checks)
			stopOthers()
			break
		}
	}
	var sat, unsat []res
	for _, r := range all {
		switch r.r {
		case "sat":
			sat = append(sat, r)
		case "unsat":
			unsat = append(unsat, r)
		}
	}
	var det strings.Builder
	for _, r := range all {
		fmt.Fprintf(&det, "%s: %s (%.2fs)\n", r.name, r.r, r.dt)
		if r.r == "error" {
			o := r.out
			if len(o) > 400 {
				o = o[:400]
			}
			fmt.Fprintf(&det, "  %s\n", strings.ReplaceAll(strings.TrimSpace(o), "\n", "\n  "))
		}
	}
	ob.Detail = det.String()
	switch {
	case len(sat) > 0 && len(unsat) > 0:
		ob.Result, ob.Solver = "disagree", sat[0].name+"/"+unsat[0].name
	case len(unsat) > 0:
		ob.Result, ob.Solver, ob.TimeS = "unsat", unsat[0].name, unsat[0].dt
	case len(sat) > 0:
		ob.Result, ob.Solver, ob.TimeS = "sat", sat[0].name, sat[0].dt
		if !ob.Cover {
			ob.Model = getModel(u, ob, cfg, sat[0].name)
		}
	default:
		ob.Result, ob.Solver = "unknown", "all"
		if first == "error" {
			ob.Result = "error"
		}
		// No solver decided it within the normal timeout. Before the obligation is reported as failed, give every solver a
		// long second chance: on a loaded machine a query that normally takes a few seconds can exceed the timeout, and an
		// undischarged obligation on an unchanged tree would be a false alarm. (A definite `sat` is never retried.)
		if os.Getenv("GOVC_SLOW") != "" {
			fmt.Fprintf(os.Stderr, "PORTFOLIO-UNDECIDED %s patient=%v\n%s", ob.Name, patient, ob.Detail)
		}
		if !patient && cfg.PatienceS > cfg.TimeoutS && !cfg.NoPatience[ob.Name] {
			// one patient attempt at a time per unit; after one that ended undecided the rest of the unit is not retried
			// (the unit is reported in any case)
			u.patientMu.Lock()
			if u.patientFails < 1 {
				long := *cfg
				long.TimeoutS = cfg.PatienceS
				saved := ob.Detail
				portfolioWith(u, ob, &long, first, true)
				ob.Detail = saved + "second attempt with " + fmt.Sprint(cfg.PatienceS) + " s per solver:\n" + ob.Detail
				if ob.Result != "unsat" && ob.Result != "sat" {
					u.patientFails++
				}
			}
			u.patientMu.Unlock()
		}
	}
}

func getModel(u *Unit, ob *Obligation, cfg *SolverCfg, solverName string) string {
	if len(u.Watch) == 0 {
		return ""
	}
	var b strings.Builder
	b.WriteString(ob.queryTxt)
	b.WriteString("(get-value (")
	for _, w := range u.Watch {
		b.WriteString(w.Term.S + " ")
	}
	b.WriteString("))\n")
	f := tmpFile(cfg, b.String())
	defer os.Remove(f)
	for _, s := range solvers {
		if s.name != solverName {
			continue
		}
		out, _ := runSolver(s, f, cfg.TimeoutS)
		i := strings.Index(out, "(")
		if i < 0 {
			return ""
		}
		vals := parseGetValue(out[i:])
		var r strings.Builder
		for j, w := range u.Watch {
			if j < len(vals) {
				fmt.Fprintf(&r, "%s = %s\n", w.Name, vals[j])
			}
		}
		return r.String()
	}
	return ""
}

// parseGetValue extracts the value parts of "((t1 v1) (t2 v2) ...)".
func parseGetValue(s string) []string {
	var out []string
	depth := 0
	start := -1
	for i := 0; i < len(s); i++ {
		switch s[i] {
		case '|':
			// quoted symbol
			j := strings.IndexByte(s[i+1:], '|')
			if j < 0 {
				return out
			}
			i += j + 1
		case '"':
			for i++; i < len(s); i++ {
				if s[i] == '"' {
					if i+1 < len(s) && s[i+1] == '"' {
						i++
						continue
					}
					break
				}
			}
		case '(':
			depth++
			if depth == 2 {
				start = i
			}
		case ')':
			if depth == 2 && start >= 0 {
				pair := s[start+1 : i]
				out = append(out, splitPair(pair))
				start = -1
			}
			depth--
			if depth == 0 {
				return out
			}
		}
	}
	return out
}

// splitPair returns the value of "term value".
func splitPair(p string) string {
	p = strings.TrimSpace(p)
	// skip the first s-expression (the term)
	i := 0
	if p[0] == '(' {
		d := 0
		for ; i < len(p); i++ {
			if p[i] == '(' {
				d++
			} else if p[i] == ')' {
				d--
				if d == 0 {
					i++
					break
				}
			}
		}
	} else if p[0] == '|' {
		i = strings.IndexByte(p[1:], '|') + 2
	} else {
		i = strings.IndexAny(p, " \t\n")
		if i < 0 {
			return ""
		}
	}
	return strings.TrimSpace(p[i:])
}

// solveUnitNoPortfolio: one incremental z3 run, no fall-back (exploratory sweeps).
func solveUnitNoPortfolio(u *Unit, cfg *SolverCfg) {
	sc := u.Script
	if sc == nil || len(sc.obs) == 0 {
		return
	}
	sc.timeoutMs = cfg.TimeoutS * 1000
	f := tmpFile(cfg, sc.renderIncremental())
	out, _ := runSolverN(solvers[0], f, cfg.TimeoutS, len(sc.obs))
	os.Remove(f)
	var results []string
	for _, l := range strings.Split(out, "\n") {
		switch strings.TrimSpace(l) {
		case "sat", "unsat", "unknown", "timeout":
			results = append(results, strings.TrimSpace(l))
		}
	}
	for i, ob := range sc.obs {
		ob.Result = "error"
		if i < len(results) {
			ob.Result = results[i]
		}
	}
}
