package main

import (
	"fmt"
	"go/types"
	"sort"
	"strings"

	"golang.org/x/tools/go/ssa"
)

// C17, obligation kind "error-dynamic-type": the OpenAPI exporter converts the error of its walk back to its own error
// interface with a panicking type assertion `e.(T)` (castErr). Closed world over the package: for every panicking
// assertion to a concrete package type T on an error-like interface, every function of the package that returns such an
// interface returns - wherever it builds the interface value itself - a value of exactly type T (not *T, not another
// type). Values passed through (parameters, results of other functions) are covered where they are built.
func (e *Engine) errDynTypeChecks(id string) []fdResult {
	if id != "C17" {
		return nil
	}
	pkgPath := modPath + "/catalog/ser/openapi"
	pkg := e.pkgs[pkgPath]
	if pkg == nil {
		return nil
	}
	var fns []*ssa.Function
	for _, fn := range e.moduleFunctions() {
		if pkgPathOf(fn) == pkgPath {
			fns = append(fns, fn)
		}
	}
	// targets of panicking assertions on interfaces that embed error
	errT := types.Universe.Lookup("error").Type().Underlying().(*types.Interface)
	targets := map[string]types.Type{}
	for _, fn := range fns {
		for _, b := range fn.Blocks {
			for _, in := range b.Instrs {
				ta, ok := in.(*ssa.TypeAssert)
				if !ok || ta.CommaOk || types.IsInterface(ta.AssertedType) {
					continue
				}
				if it, ok := ta.X.Type().Underlying().(*types.Interface); ok && types.Implements(ta.AssertedType, errT) && it != nil {
					if nt := namedOf(ta.AssertedType); nt != nil && nt.Obj().Pkg() != nil && nt.Obj().Pkg().Path() == pkgPath {
						targets[typeKey(ta.AssertedType)] = ta.AssertedType
					}
				}
			}
		}
	}
	var out []fdResult
	var keys []string
	for k := range targets {
		keys = append(keys, k)
	}
	sort.Strings(keys)
	for _, k := range keys {
		T := targets[k]
		var bad []string
		n := 0
		for _, fn := range fns {
			res := fn.Signature.Results()
			for _, b := range fn.Blocks {
				for _, in := range b.Instrs {
					ret, ok := in.(*ssa.Return)
					if !ok {
						continue
					}
					for i, v := range ret.Results {
						if i >= res.Len() || !types.IsInterface(res.At(i).Type()) || !types.Implements(T, res.At(i).Type().Underlying().(*types.Interface)) {
							continue
						}
						mi, ok := v.(*ssa.MakeInterface)
						if !ok {
							continue
						}
						nt := namedOf(mi.X.Type())
						if nt == nil || nt.Obj().Pkg() == nil || nt.Obj().Pkg().Path() != pkgPath {
							continue
						}
						n++
						if !types.Identical(mi.X.Type(), T) {
							bad = append(bad, fmt.Sprintf("%s returns a %s as %s at %s; the package asserts %s", shortFn(fn), typeKey(mi.X.Type()), typeKey(res.At(i).Type()), e.pos(ret.Pos()), typeKey(T)))
						}
					}
				}
			}
		}
		out = append(out, fdResult{Name: "catalog/ser/openapi/error-dynamic-type/" + strings.TrimPrefix(k, "catalog/ser/openapi.") + "#1", Props: []string{"C17"},
			Goal: fmt.Sprintf("every error value built in the package and returned as an interface has dynamic type %s, the target of the package's panicking type assertion (%d construction sites)", k, n),
			OK:   len(bad) == 0 && n > 0, Detail: strings.Join(bad, "\n")})
	}
	return out
}

func namedOf(t types.Type) *types.Named {
	if p, ok := t.(*types.Pointer); ok {
		t = p.Elem()
	}
	nt, _ := t.(*types.Named)
	return nt
}

// C17, obligation kind "recover-at-boundary": the two OpenAPI accessors of kit.JApi run the whole conversion under a
// deferred call that recovers a panic and stores an error through a pointer to the accessor's error result. Decided on the
// SSA: the defer is the first call-like instruction of the entry block; its callee (in the module) calls the builtin
// recover and stores to a *error parameter or captured variable; the accessor passes the address of its named error result.
func (e *Engine) recoverBoundaryChecks(id string) []fdResult {
	type boundary struct{ prop, pkg, fn, label, goal string }
	var out []fdResult
	for _, bd := range []boundary{
		{"C17", "kit", "(*JApi).ToOpenAPIJson", "kit.JApi.ToOpenAPIJson", "a panic of the OpenAPI conversion is recovered and returned as the error of ToOpenAPIJson"},
		{"C17", "kit", "(*JApi).ToOpenAPIJsonIndent", "kit.JApi.ToOpenAPIJsonIndent", "a panic of the OpenAPI conversion is recovered and returned as the error of ToOpenAPIJsonIndent"},
		// the two trusted recover idioms of the build (their contracts assume "no panic"): the structural half is checked
		{"C01", "scanner", "enumLen", "scanner.enumLen", "a panic of the schema library's enum scanner is recovered and returned as the error of the enum body (D26)"},
		{"C01", "kit", "readPanicFree", "kit.readPanicFree", "a panic of the file reader is recovered and returned as the error of reading the root file"},
	} {
		if bd.prop != id {
			continue
		}
		fn := e.lookupFunc(modPath+"/"+bd.pkg, bd.fn)
		r := fdResult{Name: bd.label + "/recover-at-boundary#1", Props: []string{bd.prop}, Goal: bd.goal}
		if fn == nil || fn.Blocks == nil {
			r.Detail = "accessor not found"
			out = append(out, r)
			continue
		}
		var problems []string
		var def *ssa.Defer
		for _, in := range fn.Blocks[0].Instrs {
			if d, ok := in.(*ssa.Defer); ok {
				def = d
				break
			}
			if _, ok := in.(ssa.CallInstruction); ok {
				problems = append(problems, "a call precedes the deferred recover in the entry block")
				break
			}
		}
		if def == nil {
			problems = append(problems, "no defer at the start of the accessor")
		} else {
			callee := def.Call.StaticCallee()
			if callee == nil || !inModuleFn(callee) {
				problems = append(problems, "the deferred call is not a function of the module")
			} else {
				recovers, storesErr := false, false
				for _, b := range callee.Blocks {
					for _, in := range b.Instrs {
						if c, ok := in.(*ssa.Call); ok {
							if bi, ok := c.Call.Value.(*ssa.Builtin); ok && bi.Name() == "recover" {
								recovers = true
							}
						}
						if st, ok := in.(*ssa.Store); ok {
							if pt, ok := st.Addr.Type().Underlying().(*types.Pointer); ok && typeKey(pt.Elem()) == "error" {
								switch st.Addr.(type) {
								case *ssa.Parameter, *ssa.FreeVar:
									storesErr = true
								}
							}
						}
					}
				}
				if !recovers {
					problems = append(problems, "the deferred function does not call recover()")
				}
				if !storesErr {
					problems = append(problems, "the deferred function does not store an error through a *error it was given")
				}
				// the accessor hands over the address of its error result
				passesErr := false
				for _, a := range def.Call.Args {
					if al, ok := a.(*ssa.Alloc); ok && typeKey(al.Type().Underlying().(*types.Pointer).Elem()) == "error" && al.Comment == "err" {
						passesErr = true
					}
				}
				if !passesErr && len(callee.FreeVars) == 0 {
					problems = append(problems, "the accessor does not pass the address of its named error result")
				}
			}
		}
		r.OK = len(problems) == 0
		r.Detail = strings.Join(problems, "\n")
		out = append(out, r)
	}
	sort.Slice(out, func(i, j int) bool { return out[i].Name < out[j].Name })
	return out
}
