package main

import (
	"fmt"
	"go/ast"
	"go/parser"
	"os"
	"path/filepath"
	"regexp"
	"sort"
	"strings"
)

// Clause is one requires/ensures/invariant/... line of a contract.
type Clause struct {
	Kind  string   // requires ensures modifies invariant decreases ghost assume
	Props []string // property tags, e.g. C12
	Text  string
	Expr  ast.Expr // parsed lazily (modifies: list parsed separately)
	Where string   // file:line of the contract line
	Label string   // optional label for known-finding classes
}

type Contract struct {
	Pkg      string // package path of the contract file
	Target   string // function designator as written
	Params   []string
	Loop     int // 0: function contract; n>0: n-th loop
	Closure  int // >0: contract of n-th anonymous function
	Props    []string
	Clauses  []*Clause
	Attrs    map[string]bool // extern attributes: pure, deterministic, repeatable, nopanic, fresh
	Where    string
	IsExtern bool
	IsFType  bool
	IsIface  bool
	Parent   *Contract // loop/closure contracts: the function's own contract
}

func (c *Contract) clauses(kind string) []*Clause {
	var out []*Clause
	if c == nil {
		return nil
	}
	for _, cl := range c.Clauses {
		if cl.Kind == kind {
			out = append(out, cl)
		}
	}
	return out
}

type SpecParam struct{ Name, Type string }

type SpecFn struct {
	Abstract bool // uninterpreted: no definition at all
	Opaque bool // emitted as an uninterpreted function with a pattern-triggered definition
	Pkg    string
	Name   string
	Params []SpecParam
	Result string
	Body   string
	Expr   ast.Expr
	Where  string
}

type GhostField struct {
	Pkg, Type, Name, GoType string
}

type Specs struct {
	Funcs     map[string]*Contract   // key: pkgpath + "::" + designator
	Loops     map[string][]*Contract // key as above
	Closures  map[string][]*Contract
	FTypes    map[string]*Contract // key: pkgpath::TypeName
	Ifaces    map[string]*Contract // key: pkgpath::Type.Method
	Externs   map[string]*Contract // key: full ssa function string
	Fns       map[string]*SpecFn   // key: pkgpath::name (also visible unqualified from other packages if unique)
	Ghosts    map[string]*GhostField
	InlinePkg []string
	GlobalInvs []*SpecFn
	Confined   []*confinedSpec
	MapOrder   []*mapOrderSpec
	Files     []string
	NAssume   int
}

var clauseKw = map[string]bool{"requires": true, "ensures": true, "modifies": true, "invariant": true,
	"decreases": true, "ghost": true, "property": true, "attr": true, "assume": true, "havoc": true, "axiom": true, "symmetric": true, "keeps": true}

var headRe = regexp.MustCompile(`^(func|functype|iface|extern|pred|fn|ghost|inlinepkg|opaque|modset|globalinv|confined|maporder)\b`)

func loadSpecs(root string, pkgDirs map[string]string) (*Specs, error) {
	sp := &Specs{Funcs: map[string]*Contract{}, Loops: map[string][]*Contract{}, Closures: map[string][]*Contract{},
		FTypes: map[string]*Contract{}, Ifaces: map[string]*Contract{}, Externs: map[string]*Contract{},
		Fns: map[string]*SpecFn{}, Ghosts: map[string]*GhostField{}}
	var paths []string
	for p := range pkgDirs {
		paths = append(paths, p)
	}
	sort.Strings(paths)
	for _, pkgPath := range paths {
		dir := pkgDirs[pkgPath]
		files, _ := filepath.Glob(filepath.Join(dir, "zz_verif_contracts*.go"))
		sort.Strings(files)
		for _, f := range files {
			if err := sp.parseFile(pkgPath, f); err != nil {
				return nil, err
			}
			sp.Files = append(sp.Files, f)
		}
	}
	return sp, nil
}

func (sp *Specs) parseFile(pkgPath, file string) error {
	data, err := os.ReadFile(file)
	if err != nil {
		return err
	}
	lines := strings.Split(string(data), "\n")
	var cur *Contract
	var curFn *SpecFn
	var curClause *Clause
	flushFn := func() {
		if curFn != nil {
			curFn.Body = strings.TrimSpace(curFn.Body)
			sp.Fns[curFn.Pkg+"::"+curFn.Name] = curFn
			curFn = nil
		}
	}
	for i, raw := range lines {
		where := fmt.Sprintf("%s:%d", file, i+1)
		t := strings.TrimRight(raw, " \t\r")
		if !strings.HasPrefix(t, "//@") {
			continue
		}
		body := strings.TrimPrefix(t, "//@")
		if strings.TrimSpace(body) == "" {
			continue
		}
		// strip trailing comment "// ..." that is outside string literals
		body = stripLineComment(body)
		indented := strings.HasPrefix(body, "  ") || strings.HasPrefix(body, "\t")
		txt := strings.TrimSpace(body)
		if txt == "" {
			continue
		}
		if !indented && headRe.MatchString(txt) {
			flushFn()
			cur, curClause = nil, nil
			kw := headRe.FindString(txt)
			rest := strings.TrimSpace(txt[len(kw):])
			opaque := false
			if kw == "opaque" {
				opaque = true
				kw = headRe.FindString(rest)
				if kw != "pred" && kw != "fn" {
					return fmt.Errorf("%s: opaque must be followed by pred or fn", where)
				}
				rest = strings.TrimSpace(rest[len(kw):])
			}
			switch kw {
			case "maporder":
				// maporder <func designator> <n> <reason...>
				fs := strings.Fields(rest)
				if len(fs) < 3 {
					return fmt.Errorf("%s: bad maporder declaration", where)
				}
				var n int
				fmt.Sscanf(fs[1], "%d", &n)
				sp.MapOrder = append(sp.MapOrder, &mapOrderSpec{Pkg: pkgPath, Func: fs[0], N: n, Reason: strings.Join(fs[2:], " "), Where: where})
			case "confined":
				// confined Type.field writers f, g property Cxx
				fs := strings.Fields(strings.ReplaceAll(rest, ",", " "))
				if len(fs) < 3 || (fs[1] != "writers" && fs[1] != "readers") {
					return fmt.Errorf("%s: bad confined declaration", where)
				}
				dot := strings.LastIndex(fs[0], ".")
				cs := &confinedSpec{Pkg: pkgPath, Type: fs[0][:dot], Field: fs[0][dot+1:], Where: where, Readers: fs[1] == "readers"}
				i := 2
				for ; i < len(fs) && fs[i] != "property"; i++ {
					cs.Writers = append(cs.Writers, fs[i])
				}
				for i++; i < len(fs); i++ {
					cs.Props = append(cs.Props, fs[i])
				}
				sp.Confined = append(sp.Confined, cs)
			case "globalinv":
				// globalinv <expr over package-level variables>: holds after package initialisation and is never broken
				// (the variables it mentions may be written only by init; checked syntactically)
				fn := &SpecFn{Pkg: pkgPath, Name: fmt.Sprintf("globalinv:%d", len(sp.GlobalInvs)), Where: where, Body: rest, Result: "bool"}
				sp.GlobalInvs = append(sp.GlobalInvs, fn)
				curFn = fn
			case "modset":
				// modset name(p) := l-value, l-value, ...   (textual abbreviation usable in modifies clauses)
				idx := strings.Index(rest, ":=")
				op := strings.Index(rest, "(")
				cp := strings.Index(rest, ")")
				if idx < 0 || op < 0 || cp < op || cp > idx {
					return fmt.Errorf("%s: bad modset", where)
				}
				fn := &SpecFn{Pkg: pkgPath, Name: "modset:" + strings.TrimSpace(rest[:op]), Where: where, Body: rest[idx+2:]}
				fn.Params = []SpecParam{{Name: strings.TrimSpace(rest[op+1 : cp])}}
				curFn = fn
			case "inlinepkg":
				sp.InlinePkg = append(sp.InlinePkg, rest)
			case "ghost":
				// ghost field <Type>.<name> <gotype>
				fs := strings.Fields(rest)
				if len(fs) != 3 || fs[0] != "field" {
					return fmt.Errorf("%s: bad ghost declaration", where)
				}
				dot := strings.LastIndex(fs[1], ".")
				g := &GhostField{Pkg: pkgPath, Type: fs[1][:dot], Name: fs[1][dot+1:], GoType: fs[2]}
				sp.Ghosts[pkgPath+"::"+g.Type+"."+g.Name] = g
			case "pred", "fn":
				// pred name(p T, q U) := expr   |  fn name(p T) R := expr
				idx := strings.Index(rest, ":=")
				abstract := false
				if idx < 0 {
					if !opaque {
						return fmt.Errorf("%s: missing := in %s", where, kw)
					}
					// "opaque pred name(params)" without a body: an uninterpreted predicate
					abstract = true
					idx = len(rest)
					rest += ":="
				}
				head, bodyTxt := strings.TrimSpace(rest[:idx]), rest[idx+2:]
				op := strings.Index(head, "(")
				cp := strings.LastIndex(head, ")")
				if op < 0 || cp < op {
					return fmt.Errorf("%s: bad %s header", where, kw)
				}
				fn := &SpecFn{Pkg: pkgPath, Name: strings.TrimSpace(head[:op]), Where: where, Body: bodyTxt, Opaque: opaque, Abstract: abstract}
				fn.Result = strings.TrimSpace(head[cp+1:])
				if kw == "pred" {
					fn.Result = "bool"
				}
				for _, p := range splitTop(head[op+1:cp], ',') {
					p = strings.TrimSpace(p)
					if p == "" {
						continue
					}
					sp2 := strings.IndexAny(p, " \t")
					if sp2 < 0 {
						return fmt.Errorf("%s: parameter %q needs a type", where, p)
					}
					fn.Params = append(fn.Params, SpecParam{p[:sp2], strings.TrimSpace(p[sp2:])})
				}
				curFn = fn
			default:
				c := &Contract{Pkg: pkgPath, Where: where, Attrs: map[string]bool{}}
				// designator[(params)] [loop n | closure n]
				base := strings.TrimSpace(stripSuffixWords(rest))
				rest = strings.TrimSpace(rest[len(stripSuffixWords(rest)):])
				desig := base
				if strings.HasSuffix(base, ")") {
					if op := strings.LastIndex(base, "("); op > 0 {
						desig = strings.TrimSpace(base[:op])
						for _, p := range strings.Split(base[op+1:len(base)-1], ",") {
							if p = strings.TrimSpace(p); p != "" {
								c.Params = append(c.Params, p)
							}
						}
					}
				}
				fs := strings.Fields(rest)
				for j := 0; j+1 < len(fs); j += 2 {
					var n int
					fmt.Sscanf(fs[j+1], "%d", &n)
					switch fs[j] {
					case "loop":
						c.Loop = n
					case "closure":
						c.Closure = n
					}
				}
				c.Target = desig
				key := pkgPath + "::" + desig
				switch kw {
				case "func":
					switch {
					case c.Loop > 0:
						sp.Loops[key] = append(sp.Loops[key], c)
					case c.Closure > 0:
						sp.Closures[key] = append(sp.Closures[key], c)
					default:
						if sp.Funcs[key] != nil {
							return fmt.Errorf("%s: duplicate contract for %s", where, desig)
						}
						sp.Funcs[key] = c
					}
				case "functype":
					c.IsFType = true
					sp.FTypes[key] = c
				case "iface":
					c.IsIface = true
					sp.Ifaces[key] = c
				case "extern":
					c.IsExtern = true
					sp.Externs[desig] = c
				}
				cur = c
			}
			continue
		}
		// continuation / clause line
		if curFn != nil {
			curFn.Body += " " + txt
			continue
		}
		if cur == nil {
			return fmt.Errorf("%s: clause outside of a contract block: %q", where, txt)
		}
		first := txt
		if j := strings.IndexAny(txt, " \t[("); j > 0 {
			first = txt[:j]
		}
		if clauseKw[first] {
			rest := strings.TrimSpace(txt[len(first):])
			var props []string
			label := ""
			if strings.HasPrefix(rest, "[") {
				end := strings.Index(rest, "]")
				for _, p := range strings.Split(rest[1:end], ",") {
					p = strings.TrimSpace(p)
					if strings.HasPrefix(p, "@") {
						label = p[1:]
					} else if p != "" {
						props = append(props, p)
					}
				}
				rest = strings.TrimSpace(rest[end+1:])
			}
			switch first {
			case "property":
				for _, p := range strings.Split(rest, ",") {
					if p = strings.TrimSpace(p); p != "" {
						cur.Props = append(cur.Props, p)
					}
				}
				curClause = nil
			case "attr":
				for _, p := range strings.Fields(rest) {
					cur.Attrs[p] = true
				}
				curClause = nil
			default:
				if first == "assume" {
					sp.NAssume++
				}
				curClause = &Clause{Kind: first, Props: props, Text: rest, Where: where, Label: label}
				cur.Clauses = append(cur.Clauses, curClause)
			}
			continue
		}
		if curClause == nil {
			return fmt.Errorf("%s: continuation line without a clause: %q", where, txt)
		}
		curClause.Text += " " + txt
	}
	flushFn()
	return nil
}

// stripSuffixWords removes trailing "loop n" / "closure n" words.
func stripSuffixWords(s string) string {
	re := regexp.MustCompile(`\s+(loop|closure)\s+\d+\s*$`)
	for {
		loc := re.FindStringIndex(s)
		if loc == nil {
			return s
		}
		s = s[:loc[0]]
	}
}

func stripLineComment(s string) string {
	inStr := false
	var q byte
	for i := 0; i+1 < len(s); i++ {
		c := s[i]
		if inStr {
			if c == '\\' {
				i++
			} else if c == q {
				inStr = false
			}
			continue
		}
		if c == '"' || c == '\'' || c == '`' {
			inStr, q = true, c
			continue
		}
		if c == '/' && s[i+1] == '/' {
			return s[:i]
		}
	}
	return s
}

func splitTop(s string, sep byte) []string {
	var out []string
	depth := 0
	last := 0
	for i := 0; i < len(s); i++ {
		switch s[i] {
		case '(', '[', '{':
			depth++
		case ')', ']', '}':
			depth--
		default:
			if s[i] == sep && depth == 0 {
				out = append(out, s[last:i])
				last = i + 1
			}
		}
	}
	out = append(out, s[last:])
	return out
}

func (c *Clause) expr() ast.Expr {
	if c.Expr == nil {
		e, err := parser.ParseExpr(c.Text)
		if err != nil {
			specErr("%s: cannot parse %q: %v", c.Where, c.Text, err)
		}
		c.Expr = e
	}
	return c.Expr
}

func (f *SpecFn) expr() ast.Expr {
	if f.Expr == nil {
		e, err := parser.ParseExpr(f.Body)
		if err != nil {
			specErr("%s: cannot parse body of %s: %v", f.Where, f.Name, err)
		}
		f.Expr = e
	}
	return f.Expr
}
