#!/bin/sh
# all_seeds.sh: must-fail corpus - applies every stored seed to /repo (must be clean), runs the quick check of its property, restores /repo.
cd /verif/seeded || exit 2
for d in */; do
  d=${d%/}
  p=$(echo $d | cut -c1-3)
  r=$(/verif/tools/try_seed.sh /verif/seeded/$d $p 2>&1 | grep -c "^VIOLATION")
  echo "$d violations=$r"
done
