#!/bin/sh
# all_seeds.sh: must-fail corpus. Every stored seed is applied to a scratch copy of /repo's working tree (never to /repo
# itself) and the quick check of its property must report it. Prints one line per seed; exit 1 if a seed is missed.
export GOFLAGS=-mod=mod GOPROXY=off GOSUMDB=off GOTOOLCHAIN=local
S=$(mktemp -d /tmp/govc_corpus.XXXXXX)
mkdir -p "$S/verif"; cp /verif/known_findings.txt /verif/properties.jsonl "$S/verif/" 2>/dev/null
missed=0
for d in /verif/seeded/*/; do
  d=${d%/}; id=$(basename $d); p=$(echo $id | cut -c1-3)
  rm -rf "$S/repo"; rsync -a --exclude .git /repo/ "$S/repo/"
  if ! (cd "$S/repo" && patch -p1 --fuzz=3 -s < "$d/patch.diff" >/dev/null 2>&1); then echo "$id patch-does-not-apply"; continue; fi
  n=$(GOVC_REPO="$S/repo" GOVC_VERIF="$S/verif" /verif/bin/govc check "$p" quick 2>/dev/null | grep -c "^VIOLATION")
  echo "$id violations=$n"
  [ "$n" -eq 0 ] && missed=$((missed+1))
done
rm -rf "$S"
echo "missed=$missed"
[ "$missed" -eq 0 ]
