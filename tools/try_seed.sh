#!/bin/sh
# try_seed.sh <seed dir with patch.diff> <property id> [tier]: applies the seeded change to /repo, runs the check, restores /repo.
set -u
D=$1; P=$2; T=${3:-quick}
cd /repo || exit 2
if [ -n "$(git status --porcelain)" ]; then echo "/repo is not clean"; exit 2; fi
if ! git apply "$D/patch.diff" 2>/dev/null; then
  if ! patch -p1 --fuzz=3 -s < "$D/patch.diff"; then echo "PATCH DOES NOT APPLY"; git checkout -- .; git clean -fdq -e '*.orig' >/dev/null; exit 3; fi
fi
/verif/check "$P" "$T" 2>&1 | grep -E "VIOLATION|KNOWN|obligation:|^property" | head -12
git checkout -- . ; find . -name '*.orig' -delete; find . -name '*.rej' -delete
git status --porcelain
