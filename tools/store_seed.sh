#!/bin/sh
# store_seed.sh <worktree id, e.g. C16j> <seed id, e.g. C16-5> "<reported_by text>" [first: missed|reported]
set -eu
W=$1; S=$2; R=$3; F=${4:-reported}
mkdir -p /verif/seeded/$S
cp /tmp/mut/$W/OUT/patch.diff /verif/seeded/$S/
cp /tmp/mut/$W/OUT/*_test.go /verif/seeded/$S/ 2>/dev/null || true
python3 - "$W" "$S" "$R" "$F" <<'PY'
import json,sys
w,s,r,f=sys.argv[1:5]
m=json.load(open('/tmp/mut/%s/OUT/meta.json'%w))
m['property']=s.split('-')[0]
m['reported_by']=[r]; m['first_run']=f; m["round"]=int(__import__("os").environ.get("ROUND","11"))
json.dump(m,open('/verif/seeded/%s/meta.json'%s,'w'),indent=2)
PY
ls /verif/seeded/$S
