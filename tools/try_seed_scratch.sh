#!/bin/sh
# try_seed_scratch.sh <seed dir with patch.diff> <property id>: applies the seeded change to a scratch copy of /repo's HEAD
# (never to /repo itself), runs the quick check of the property against it, removes the copy.
export GOFLAGS=-mod=mod GOPROXY=off GOSUMDB=off GOTOOLCHAIN=local
D=$1; P=$2
S=$(mktemp -d /tmp/govc_try.XXXXXX)
mkdir -p "$S/verif" "$S/repo"; cp /verif/known_findings.txt /verif/properties.jsonl /verif/MANIFEST.json "$S/verif/" 2>/dev/null
git -C /repo archive HEAD | tar -x -C "$S/repo"
if ! (cd "$S/repo" && patch -p1 --fuzz=3 -s < "$D/patch.diff" >/dev/null 2>&1); then echo "PATCH DOES NOT APPLY"; rm -rf "$S"; exit 3; fi
GOVC_REPO="$S/repo" GOVC_VERIF="$S/verif" /verif/bin/govc check "$P" quick 2>&1 | grep -E "VIOLATION|KNOWN|obligation:|^property" | grep -v KNOWN | head -12
rm -rf "$S"
