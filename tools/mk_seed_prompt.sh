#!/bin/sh
# mk_seed_prompt.sh <Cxx> <letter>: scratch worktree /tmp/mut/<Cxx><letter> of /repo HEAD without the contract files, and the
# prompt for an independent seeding agent (/tmp/mut/<Cxx><letter>.prompt). Nothing under /verif is shown to the agent.
set -eu
P=$1; L=$2; ID=$P$L
mkdir -p /tmp/mut
[ -f /tmp/mut/$P.property.txt ] || python3 - "$P" > /tmp/mut/$P.property.txt <<'PY'
import json,sys
for l in open('/verif/properties.jsonl'):
    p=json.loads(l)
    if p['id']==sys.argv[1]:
        print(p['id']+': '+p['title']+'\n\n'+p['statement']+'\n\nQuantified over: '+p['quantifier']['text']+'\n\nWhy tests cannot settle it: '+p['why_tests_cant'])
PY
git -C /repo worktree add --detach /tmp/mut/$ID HEAD >/dev/null 2>&1
cd /tmp/mut/$ID
for f in $(git ls-files | grep zz_verif_contracts.go); do git update-index --skip-worktree $f; rm -f $f; done
python3 - "$P" "$ID" > /tmp/mut/$ID.prompt <<'PY'
import json,sys,glob,os
P,ID=sys.argv[1],sys.argv[2]
t=open('/tmp/mut/PROMPT.tmpl').read()
prev=[]; files=set()
for d in sorted(glob.glob('/verif/seeded/%s-*'%P)+glob.glob('/verif/seeded_discarded/%s-*'%P)):
    try:
        m=json.load(open(d+'/meta.json')); prev.append(' - '+m.get('summary','')[:260].replace('\n',' '))
    except Exception: pass
    try:
        for l in open(d+'/patch.diff'):
            if l.startswith('+++ b/'): files.add(l[6:].strip())
    except Exception: pass
extra=''
if prev:
    extra='\nOther people already tried the following changes for this property; pick a DIFFERENT function and mechanism, and if at all possible a file that is NOT one of: '+', '.join(sorted(files))+'\n'+'\n'.join(prev)+'\n'
print(t.replace('@ID@',ID).replace('@EXTRA@',extra).replace('"property":"%s"'%ID,'"property":"%s"'%P))
PY
cp /tmp/mut/$P.property.txt /tmp/mut/$ID.property.txt
echo /tmp/mut/$ID.prompt
