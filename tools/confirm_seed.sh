#!/bin/sh
# confirm_seed.sh <OUT dir with patch.diff + *_test.go + meta.json> <pkg dir of demo, e.g. scanner> <seed id>
# Confirms in a scratch worktree: suite passes with the patch, demo fails with it and passes without it.
set -u
OUT=$1; PKG=$2; ID=$3
export GOFLAGS=-mod=mod GOPROXY=off GOSUMDB=off GOTOOLCHAIN=local
W=/tmp/confirm_$ID
git -C /repo worktree remove --force $W 2>/dev/null
git -C /repo worktree add -q --detach $W HEAD || exit 2
cd $W
DEMO=$(ls $OUT/*_test.go | head -1)
res=""
git apply $OUT/patch.diff || { echo "PATCH DOES NOT APPLY"; exit 2; }
go build ./... || { echo "BUILD FAILS"; exit 2; }
if go test -vet=off -count=1 ./... > /tmp/confirm_$ID.suite 2>&1; then res="$res suite-with-patch=pass"; else res="$res suite-with-patch=FAIL"; fi
cp $DEMO $PKG/
if go test -vet=off -count=1 -timeout 120s -run TestSeededDemo ./$PKG/ > /tmp/confirm_$ID.demo1 2>&1; then res="$res demo-with-patch=PASS(bad)"; else res="$res demo-with-patch=fail(good)"; fi
git apply -R $OUT/patch.diff
if go test -vet=off -count=1 -timeout 120s -run TestSeededDemo ./$PKG/ > /tmp/confirm_$ID.demo2 2>&1; then res="$res demo-without-patch=pass(good)"; else res="$res demo-without-patch=FAIL(bad)"; fi
cd /; git -C /repo worktree remove --force $W
echo "$ID:$res"
