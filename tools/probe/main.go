// probe: runs the real library on a project given as arguments.
//
//	probe build <rootfile>            build from disk, print error/JSON
//	probe str '<content>'             build from an in-memory root file named root.jst
//	probe scan '<content>'            run only the scanner, print lexemes
package main

import (
	"fmt"
	"os"

	"github.com/jsightapi/jsight-schema-core/fs"

	"github.com/jsightapi/jsight-api-core/core"
	"github.com/jsightapi/jsight-api-core/directive"
	"github.com/jsightapi/jsight-api-core/jerr"
	"github.com/jsightapi/jsight-api-core/kit"
	"github.com/jsightapi/jsight-api-core/scanner"
)

func main() {
	defer func() {
		if r := recover(); r != nil {
			fmt.Printf("PANIC: %v\n", r)
			os.Exit(3)
		}
	}()
	switch os.Args[1] {
	case "build":
		j, je := kit.NewJapi(os.Args[2])
		report(j, je)
	case "str":
		j, je := kit.NewJApiFromFile(fs.NewFile("root.jst", os.Args[2]))
		report(j, je)
	case "ban":
		// probe ban <keyword> '<content>': build with that directive kind banned
		de, err := directive.NewDirectiveType(os.Args[2])
		if err != nil {
			fmt.Println("unknown directive", os.Args[2])
			os.Exit(2)
		}
		c := core.NewJApiCore(fs.NewFile("root.jst", os.Args[3]), core.WithBannedDirectives(de))
		if je := c.BuildCatalog(); je != nil {
			fmt.Printf("ERROR: %s (index %d)\n", je.Error(), je.Index)
			os.Exit(1)
		}
		fmt.Println("OK")
	case "twice":
		// probe twice '<content>': ToJson called twice on one catalog, and on two builds
		j, je := kit.NewJApiFromFile(fs.NewFile("root.jst", os.Args[2]))
		if je != nil {
			fmt.Println("BUILD ERROR:", je.Error())
			os.Exit(1)
		}
		a, _ := j.ToJson()
		b, _ := j.ToJson()
		j2, _ := kit.NewJApiFromFile(fs.NewFile("root.jst", os.Args[2]))
		c, _ := j2.ToJson()
		fmt.Println("same catalog, two calls equal:", string(a) == string(b))
		fmt.Println("two builds equal:", string(a) == string(c))
		if string(a) != string(b) {
			fmt.Println(string(a))
			fmt.Println(string(b))
		}
	case "oa":
		// probe oa '<content>': build and export OpenAPI
		j, je := kit.NewJApiFromFile(fs.NewFile("root.jst", os.Args[2]))
		if je != nil {
			fmt.Println("BUILD ERROR:", je.Error())
			os.Exit(1)
		}
		b, err := j.ToOpenAPIJson()
		if err != nil {
			fmt.Println("OPENAPI ERROR:", err)
			os.Exit(1)
		}
		fmt.Printf("OK %d bytes\n", len(b))
	case "scan":
		s := scanner.NewJApiScanner(fs.NewFile("root.jst", os.Args[2]))
		for {
			l, je := s.Next()
			if je != nil {
				fmt.Printf("ERROR: %s index=%d line=%d col=%d\n", je.Msg, je.Index, je.Line, je.Column)
				return
			}
			if l == nil {
				return
			}
			fmt.Printf("%s %q\n", l.String(), l.Value().String())
		}
	}
}

func report(j kit.JApi, je interface{ Error() string }) {
	if v, ok := je.(interface{ Error() string }); ok && fmt.Sprint(je) != "<nil>" {
		fmt.Printf("ERROR: %s\n", v.Error())
		if l, ok := je.(*jerr.JApiError); ok && l != nil {
			fmt.Printf("  line %d column %d index %d\n", l.Line, l.Column, l.Index)
		}
		os.Exit(1)
	}
	b, err := j.ToJson()
	if err != nil {
		fmt.Printf("TOJSON ERROR: %v\n", err)
		os.Exit(1)
	}
	fmt.Printf("OK %d bytes\n", len(b))
	if len(os.Args) > 3 {
		fmt.Println(string(b))
	}
}
