#!/usr/bin/env python3
"""delta.py query.smt2 [timeout_s]: which single top-level assert, when removed, makes the query quickly unsat?"""
import sys, subprocess, time, concurrent.futures, os, tempfile
src = open(sys.argv[1]).read()
to = int(sys.argv[2]) if len(sys.argv) > 2 else 8
lines = src.split('\n')
def run(idx):
    txt = '\n'.join(l for i, l in enumerate(lines) if i != idx)
    f = tempfile.NamedTemporaryFile('w', suffix='.smt2', delete=False); f.write(txt); f.close()
    t = time.time()
    try:
        o = subprocess.run(['z3-new', '-T:%d' % to, f.name], capture_output=True, text=True, timeout=to + 5).stdout.split('\n')[0]
    except Exception:
        o = 'TIMEOUT'
    os.unlink(f.name)
    return idx, o, round(time.time() - t, 2)
print('base', run(-1))
cands = [i for i, l in enumerate(lines) if l.startswith('(assert') and i != len(lines) - 3]
with concurrent.futures.ThreadPoolExecutor(14) as ex:
    for idx, o, dt in ex.map(run, cands):
        if o == 'unsat' and dt < to * 0.5:
            print(idx, o, dt, lines[idx][:200])
