#!/bin/sh
# reconfirm_all.sh: re-confirms every stored seed against the CURRENT /repo HEAD (suite passes with it, demo fails with it,
# demo passes without it). A seed whose demo no longer fails has been masked by a later fix and must be discarded.
cd /verif/seeded
for d in */; do
  d=${d%/}
  t=$(ls /verif/seeded/$d/*_test.go | head -1)
  pk=$(grep -m1 "^package " $t | awk '{print $2}')
  case $pk in openapi) dir=catalog/ser/openapi;; *) dir=$pk;; esac
  /verif/tools/confirm_seed.sh /verif/seeded/$d $dir re_$d 2>&1 | tail -1
done
