#!/bin/sh
# runs every registered quick check on the current tree (used before committing evidence)
cd /verif
for p in $(python3 -c "import json; print(' '.join(c['property_id'] for c in json.load(open('MANIFEST.json'))['checks']))"); do
  ./check $p ${1:-quick} 2>&1 | grep -E "^VIOLATION|^property" 
done
