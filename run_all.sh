#!/bin/sh
# runs every registered quick check on the current tree (used before committing evidence); the last line says whether all are clean
cd /verif
bad=0
for p in $(python3 -c "import json; print(' '.join(c['property_id'] for c in json.load(open('MANIFEST.json'))['checks']))"); do
  out=$(./check $p ${1:-quick} 2>&1)
  echo "$out" | grep -E "^VIOLATION|^property"
  echo "$out" | grep -q "^VIOLATION" && bad=$((bad+1))
  echo "$out" | grep -q "^property .* 0 violations" || bad=$((bad+1))
done
if [ $bad -eq 0 ]; then echo "RUN_ALL: ALL CLEAN"; else echo "RUN_ALL: $bad PROBLEM(S)"; fi
