#!/bin/sh
# builds the verifier and the probe tool from files on disk only (vendored x/tools)
set -e
export GOPROXY=off GOSUMDB=off GOTOOLCHAIN=local
mkdir -p /verif/bin
(cd /verif/govc && GOFLAGS=-mod=vendor go build -o /verif/bin/govc .)
(cd /verif/tools/probe && cp /repo/go.sum . && GOFLAGS=-mod=mod go build -o /verif/bin/probe .) || echo "probe tool not built (only needed for replays)"
