#!/usr/bin/env python3
"""Writes MANIFEST.json from the table below (kept in one place so it stays valid)."""
import json, subprocess

TB = ("Trusted: go/types + x/tools go/ssa v0.29.0 (SSA of /repo's working tree is the meaning of the program); the govc "
      "SSA->SMT translation; z3 5.1 / cvc5 1.0 / z3 4.8; assumed contracts of external functions (listed per run in the "
      "evidence under assumptions); sequential semantics (sync.* erased); memory exhaustion and stack limit not modelled.")

claims = {
 "C01": dict(
  text="Proof of the safety (no-panic) obligations of the functions under contract on the build path, for all inputs admitted by their "
       "preconditions, with preconditions propagated to the callers: every nil dereference, index, slice bound, type assertion, explicit "
       "panic, nil-map write in the 170 scanner step functions, Next and its helpers, the include stack, jerr.NewJApiError/NewLocation/quote, "
       "the whole scanning phase of core (scanProject, drainCurrentScanner, next, process*, include handling, context resolution), Directive.Path, kit.NewJapi "
       "and the 22 per-directive handlers of core/build_catalog_directives.go (under the precondition that a directive not allowed at the root has a parent - C11's "
       "postcondition - and that the catalog's collections exist) is an obligation discharged by SMT. Scope: scanning and the handlers; the MACRO/PASTE expansion walk, "
       "user-type compilation, path-variable assembly, the catalog setters' bodies (verified for their postconditions only) and serialisation are trusted or not under "
       "contract (listed per run in the evidence). Termination is not proved except the PASTE depth bound.",
  note=TB + " Defects found by these obligations and repaired: D1/D2 (nil directive), D3 (INCLUDE \"\"), D5 (/*/), D19 (error in an empty included file). Found by the bounded corpus oracle: D26 (a panic of the dependency's enum scanner, contrary to its assumed contract). Outside the contract scope (user-type compilation is trusted), reported by a seeding agent and repaired: D33 (any ENUM plus a type used before its declaration: nil-pointer panic).",
  ref="§6 C01"),
 "C07": dict(
  text="Proof, per construction site, that an error names the file/index it is located at: jerr.NewJApiError/NewLocation/OccurredInFile are verified "
       "against contracts that pin File, Index, Line/Column (as the dependency's LineAndColumn of exactly that file and index) and the trace entry "
       "(path and line of the INCLUDE; processInclude records exactly the INCLUDE keyword's position); every call site in scanner, the core scanning phase and the per-directive "
       "handlers must satisfy 'file non-nil' and 'index inside the "
       "file'. The second requirement fails exactly for end-of-input errors (Index == len): recorded as known finding D8, and the same obligation "
       "restricted to everything outside that class is still discharged. Not decided: the order of the trace entries (quantified loop contract not "
       "written), compile-phase errors.",
  note=TB + " Line/column arithmetic of jsight-schema-core is an assumed contract (abstract functions lineOf/colOf).",
  ref="§6 C07", category="other"),
 "C03": dict(
  text="Proof, per fault class and per enforcing function, of 'if the fault condition holds on entry the result is an error located at the directive and the guarded state "
       "is unchanged'. Handlers of core (22 functions): missing required parameter, forbidden annotation, empty body, duplicate OperationId / Protocol, Type together with "
       "SchemaNotation, repeated JSIGHT/INFO/Title/Version, JSIGHT not first, duplicate / undefined macro, incorrect context (shared with C11); every error a handler returns "
       "is located at its directive (keyword, or in its body's file); a catalog setter that reports a failure makes the handler return an error (ghost counter gFailed). "
       "Catalog setters: duplicate tag/server, repeated JSIGHT/INFO/Title/Version/Description/BaseUrl, and write-once clauses proved heap-wide - a Query, method Description, "
       "Request, request body, request headers, JSON-RPC Params/Result, OperationId that is set is never overwritten, an existing interaction, user type or enum entry is never "
       "replaced; the generated ordered maps are verified against an abstract view. A failed obligation is replayed on 40 single-fault documents calibrated on the unchanged "
       "tree (every run executes them, as a bounded cross-check never counted as proved). Not decided: undefined type references (inside jsight-schema-core), path-parameter faults, response "
       "body/headers, the composition over a whole document.",
  note=TB + " addDirectives (the dispatch walk), checkSimilarPaths, PathParameters, the interaction-id constructors and the schema constructors are assumed (trusted) contracts; handler and setter "
       "units marked assumesafe are verified for these postconditions only (panics inside them are assumed away, listed per run).", ref="§0.2, §6 C03"),
 "C05": dict(
  text="Proof of the representation invariant of the generated ordered maps (keys of the order list pairwise distinct and all present in the data map, Set changes exactly "
       "one key) for Tags, Servers, UserTypes, UserRules and Interactions, of the catalog invariant through AddTag/AddServer (names unique, stored value non-nil, tag name equals "
       "its key), of 'a successful addJSight leaves JSightVersion == 0.3', and of three ingredients of the tag <-> interaction relation: the tags a Tags directive names are pairwise "
       "distinct objects (so an interaction is attached to each once - D11 was the failure of this clause, repaired), a path tag is stored under its own name, and adding a "
       "description keeps the tag object (and with it the interactions already attached). Not decided: interaction ids, the full two-way relation, path variables, used user types.",
  note=TB, ref="§6 C05"),
 "C06": dict(
  text="Sufficient conditions for determinism, each decided mechanically on the SSA of /repo's working tree: (1) map-order: every range over a Go map in the module has an "
       "order-insensitive body (only keyed map updates, constant stores, pure calls, sorted accumulation, no loop-computed value leaving the loop) or is an explicitly listed "
       "assumption; (2) global-write: no store to a package-level variable outside init/sync.Once; (3) undeclared-external: every function under contract reaches only "
       "externals that have a declared contract (time, rand, os, ... have none). This is an analysis of sufficient conditions, not a proof of equality of two runs.",
  note=TB + " Map ranges that call into jsight-schema-core (AddRule/AddType/OpenAPI conversion) are assumed commutative (listed per run). Determinism inside the dependency is assumed.",
  ref="§6 C06", category="other"),
 "C08": dict(
  text="Proof of the per-state relational lemmas the statement rests on, by two-copy verification conditions of the real step functions: for each of the 170 scanner "
       "states, running the state from the same scanner state on '\\n' and on '\\r' (and on ' ' and on TAB), in two documents that differ in exactly that byte, gives the same "
       "error-or-not, the same error index, the same next state, step stack, emitted events, cursor and protocol ghost state; nested dynamic step calls are related by the "
       "induction hypothesis, contracted callees by 'a function of arguments and heap'. Hence CR-only and LF-only documents, and tab- and space-indented ones, scan identically "
       "byte for byte. Not decided: CRLF vs LF (false at the scanner level, see DESIGN §6 C08), comments/blank lines as insertions, quoting, // vs /* */, explicit vs implicit "
       "context (the latter is C11's contract), and the induction over the whole document.",
  note=TB + " The two runs share the allocation counter; externals marked deterministic are related across the runs.", ref="§6 C08"),
 "C09": dict(
  text="Proof of the mechanisms the statement rests on, per function: processInclude changes only the active scanner and the include stack (frame: the pending directive and the "
       "context cursor survive the switch); the included file starts in the root state with empty stacks; isScanningFinished resumes exactly the pushed scanner; the end of an "
       "included file does not reject an open explicit context (only the end of the root does); include errors are located at the INCLUDE keyword. Not decided: equality of the two catalogs.",
  note=TB, ref="§6 C09"),
 "C10": dict(
  text="Proof of three clauses of the statement: MACRO definitions contribute nothing - collectMacro's postcondition is that no MACRO remains in the root list (loop with in-place "
       "deletion, quantified invariant) and addMacro's frame is the macro table only; an undefined macro is rejected at the PASTE; nested PASTE depth never exceeds the number of "
       "macros (first-order measure against cycles; that a longer chain repeats a macro is the pigeonhole step on paper). The tree walk of the expansion is an assumed (trusted) "
       "contract; equality of the expanded tree with the in-place text is not decided.",
  note=TB + " processPasteDirectiveList and collectRulesFromDirectives: contracts assumed, bodies not verified.", ref="§6 C10"),
 "C11": dict(
  text="Proof of the context-resolution algorithm against the statement: processContext's postcondition is 'there is a context w on the Parent chain "
       "such that every context before w is implicit and does not admit the directive (abstract predicate skippedAll with its inductive definition as "
       "axioms) and at w exactly the statement's case applies' (attach / new root for a method with own path in an implicit URL / incorrect-context "
       "error located at the directive). The root table (a switch) is verified against the pinned specification relation; the map-based 31x31 table is "
       "evaluated completely on the real code (finite domain). Holds for every context stack, no length bound.",
  note=TB + " The specification table is transcribed in the contract file (directive/zz_verif_contracts.go); closeLastExplicitContext/processEOF are covered for safety only.",
  ref="§6 C11"),
 "C12": dict(
  text="Proof (contracts + SMT, unbounded) of the first sentence of the statement for every byte string: all 170 scanner step "
       "functions are verified against one uniform functype contract carrying the step-stack discipline, the cursor relations, the "
       "lexeme protocol (ghost gOpen/gOpenAt/gFree, precondition of the single emission point foundAt) and the per-directive bracket grammar "
       "(ghost gPhase: keyword, parameters, optional annotation, parenthesis, body); Next, processLexemeEvent, "
       "shiftFound, foundAt and NewJApiScanner are verified against a quantified invariant of the pending-event queue, which gives: a "
       "returned lexeme lies inside the file, begin <= end+1 (empty only for Annotation/Text), kinds of begin and end match, lexemes come "
       "out in text order without overlap, and neither stack can be popped empty. Exactness w.r.t. a rendered document (second sentence) "
       "is proved only per keyword (see C13), not end-to-end.",
  note=TB + " Assumed: jschema/enum Len() <= remaining input; Unquote/IsUserTypeName/SubToEndOfLine/IsStartWithDirective are pure.",
  ref="§6 C12"),
 "C13": dict(
  text="Proof per keyword state: with lit(f) the prefix spelled so far (table written from the JSight API 0.3 keyword list in the contract "
       "file), every letter state on byte c either moves to the state with lit = lit+c, or emits KeywordEnd with lit+c in the keyword "
       "list, or returns an error whose Index is the current byte; every prefix of a keyword is accepted (completeness, so each keyword is "
       "reachable by induction on its length); response codes are [1-5][0-9][0-9]; after a keyword exactly blank/newline/EOF/#// are "
       "accepted. NewDirectiveType is evaluated on the complete finite domain (30 keywords, 1000 three-digit strings) against the same list.",
  note=TB + " The keyword list in the contract is the specification.",
  ref="§6 C13"),
 "C14": dict(
  text="Proof: validateIncludeFileName's postcondition is the statement's rule written over segments (non-empty, not absolute, no '.'/'..' segment, "
       "no backslash; SMT string theory); the only file-system calls of the module (os.Stat, os.ReadFile) carry the precondition confined(path), which "
       "can only be established by Join(Dir(including file), validated parameter); any other external call is an undeclared-external failure; "
       "Stack.Push refuses a file whose name is on the stack (recursion error) and Pop forgets exactly the popped name.",
  note=TB + " Assumed lemma: filepath.Join(d, p) stays below d for a relative dot-free p; one assume clause of Stack.Pop (ownership of a stacked scanner; that the names of the remaining items stay registered is proved from the pairwise-distinct-names invariant).",
  ref="§6 C14"),
 "C16": dict(
  text="Frame argument over the real code, in two parts. (a) Mechanical, on the SSA of everything the five accessors of kit.JApi reach in the module (closed world: static "
       "calls, closures, function values, interface dispatch over the module's methods, and every MarshalJSON/MarshalText/String/Error method, which encoding/json reaches "
       "by reflection): code that runs on every call writes only memory allocated during that call (interprocedural freshness: per-parameter, per-result, per-container "
       "facts as a greatest fixpoint); no external declared stateful (the regex example generator) is called outside a sync.Once cache fill; the exporter package keeps no "
       "package-level state; C06's map-order/global-write obligations are re-run. (b) Deductive: the functions of the lazy schema compilation that run under sync.Once "
       "(inheritPropertiesFromUserType, processAllOf, Unshift, ToUsedUserTypes, StringSet.Add) are verified by SMT against modifies-clauses saying that no ExchangeContent that "
       "existed before is written except the receiver's Children (inherited children are copies). Together: each accessor is a function of the catalog state and leaves it "
       "unchanged up to caches filled once. Not decided: calls that leave the module (encoding/json, jsight-schema-core) are assumed repeatable unless declared stateful; the "
       "rest of the cache-fill code (astNodeToJsightContent and the rules builder) is assumed to write only what it allocates. Every run adds a BOUNDED cross-check on the real code "
       "(all call histories of length 3 over built-in documents and /repo/testdata), never counted as proved.",
  note=TB + " Defect found while writing this check and repaired: D17 (regex example changed on every ToJson).",
  ref="§6 C16", category="other"),
 "C17": dict(
  text="Panic clause, decided mechanically on the SSA: both OpenAPI accessors of kit.JApi run the conversion under a deferred module function that calls recover() and "
       "stores the error result (recover-at-boundary). Structural clauses that are plain Go, proved by SMT: a path item, once stored in paths, is never replaced (closure of fillPaths) and "
       "assignOperation fills the slot of its method, so every HTTP interaction lands in paths[path][method]; same-code responses are all kept (newResponseAnyOf); every "
       "property of a query/path/header schema yields one declared parameter (paramsFromJSchema). A failed obligation is replayed by exporting built-in and testdata documents "
       "with the real code (every run executes this bounded cross-check over 600 documents; it found D23). $ref resolution and response keys are produced inside "
       "jsight-schema-core/openapi and are not decided.",
  note=TB + " Defects found by this check and repaired: D13 (TYPE @x empty), D23 (additionalProperties decimal/enum/mixed): ToOpenAPIJson panicked.", ref="§0.2, §6 C17", category="other"),
 "C19": dict(
  text="Proof of the ban-check obligations at every place a directive keyword is consumed: setCurrentDirective (all directives, including MACRO, PASTE and "
       "bodies of unused macros), processInclude (INCLUDE) and addDirective return the not-allowed error located at the keyword when the kind is banned; "
       "a whole-module SSA scan shows bannedDirectives is written only by the option, and the option's closure is proved to only add to the set (bans given by several options "
       "accumulate). The 'otherwise unchanged' half follows from no other contract mentioning the set.",
  note=TB + " Handlers behind JApiCore.directiveFunctions are called through an assumed uniform contract.",
  ref="§6 C19"),
}

# bounded corpus oracles (govc/replay_corpus_test.go.tmpl): run on every check of these properties, never counted as proved
corpus = {
 "C01": "no panic on every corpus document and every prefix of the documents up to 800 bytes (thorough: 6000 bytes plus every single-byte deletion and 13 substitutions per byte, about 2 M builds); it found D26 (a panic of the dependency's enum scanner that the assumed contract excluded), repaired",
 "C05": "the statement of C05 evaluated literally on the serialised catalog of every accepted corpus document; it found D27 (MACRO in front of / instead of JSIGHT, repaired) and D28 (a document without any directive has \"jsight\": \"\": open known finding, an obligation of its own)",
 "C06": "every corpus document built twice in one process: same bytes or same error, source bytes unwritten",
 "C07": "every error of the rejected corpus documents re-derived from its (file, index) with the dependency's line arithmetic: line, column and quote",
 "C08": "blank lines, '#' comments and '###' block comments inserted between the top-level blocks of the accepted corpus documents: same catalog bytes",
 "C09": "1-3 consecutive top-level blocks of an accepted corpus document moved into an INCLUDEd file (about 4600 splits) and a document cut into a chain of 12 nested files: same catalog bytes",
 "C10": "every PASTE replaced textually by the re-indented body of its MACRO, MACRO blocks deleted: same catalog bytes; undefined and pasted cyclic macros are errors",
 "C19": "every (accepted corpus document, directive kind) pair, about 38 000 incl. CR-only layouts, a later zero byte and the last block in an INCLUDEd file: banning a kind that occurs gives the not-allowed error on an occurrence, banning one that does not occur gives the same catalog bytes",
}
# tree oracles (govc/replay_tree_test.go.tmpl) and the scanner corpus monitor: also bounded, also never counted as proved
tree = {
 "C08": "the children of every directive with an implicit context put into ( ) (about 550 rewrites), and blank lines / '#' comments / '###' block comments in front of every directive line, blanks appended to directive lines, two more columns of indentation (about 11 000 rewrites), directive boundaries taken from the scanned tree: same catalog bytes",
 "C09": "every directive subtree at any depth moved into an INCLUDEd file, two sibling subtrees moved into two files, the children of a directive moved - in a ( ) that begins the included file - into an INCLUDEd file (about 19 000 splits incl. pieces without a final line break, boundaries from the scanned tree): same catalog bytes; rejected documents split at top-level directives are rejected with the same message at the corresponding line (about 240 splits)",
 "C11": "the children of every directive with an implicit context put into ( ), and the explicit-context-across-an-INCLUDE splits of C09: same catalog bytes",
 "C12": "the monitor of the first sentence of C12 (plus: no keyword/parameter/body lexeme begins or ends with a foreign blank) on every document of /repo/testdata, every prefix up to 800 bytes, and in thorough every single-byte edit of the documents up to 400 bytes",
 "C13": "the C13 part of the same monitor (only the language's keywords are accepted, each followed by a separator) over the same corpus",
}
tree["C14"] = "56 INCLUDE arrangements on disk (INCLUDE in 11 positions where a directive may start, a chain of 12 nested files, a tab after the parameter, cycles inside parentheses; parameters with '..', '.', an absolute path, a backslash or nothing are refused at the INCLUDE although the file they name exists; missing file; directory; cycles; one file several times; names relative to the including file; in-memory roots named \"\", api.jst, ./api.jst). Cycles through the ROOT file are rejected with the JSIGHT-in-included-file error instead of the recursion error: open known finding D29, an obligation of its own"
tree["C07"] = "errors of three kinds in a file behind three nested INCLUDEs, and an error about a directive of the including file that surfaces while the included file is scanned (D30, found by a seeding agent, repaired): file, line and the trace innermost first"
tree["C06"] = "two fresh processes build about 1000 corpus documents to the same catalog bytes / error texts (digest comparison)"
for k, v in tree.items():
    claims[k]["text"] += " BOUNDED as well (reported under bounded_checks_not_counted_as_proved): " + v + "."
for k, v in corpus.items():
    claims[k]["text"] += (" Every run also executes a BOUNDED corpus oracle on the real code (built-in documents, 400 generated documents and about 1100 documents of /repo/testdata, go test -overlay, "
                          "reported under bounded_checks_not_counted_as_proved and never counted as proved): " + v + ".")

not_applicable = {
 "C02": "model round-trip over all renderings: needs a grammar of documents and an induction over them; function-level ingredients are claimed under C03/C05/C11/C12",
 "C15": "relational claim over permutations of a whole document; the order-insensitive part lives in jsight-schema-core",
 "C18": "schedules and data races: the translation is sequential (sync.* erased), no permission logic",
 "C04": "well-formedness of the JSON is produced by encoding/json (reflection) and by jsight-schema-core's lazy Compile/GetAST/Example; the only clause that is /repo's own "
        "(every stored schema was compiled successfully before the build succeeds) was examined by reading, which found D18 (repaired, 43ba4b3); a typestate proof would rest on "
        "assumed contracts of the dependency only - see DESIGN.md section 7",
}
# properties not yet claimed in this revision are listed as not_applicable with the reason "not yet under contract"
pending = []

checks = []
for pid in sorted(claims):
    c = claims[pid]
    checks.append({
        "property_id": pid,
        "quick_cmd": "/verif/check %s quick" % pid,
        "thorough_cmd": "/verif/check %s thorough" % pid,
        "evidence_file": "/verif/evidence/%s.json" % pid,
        "replay_cmd_template": "cat {path}",
        "engine": "govc",
        "level_claimed": {"category": c.get("category", "proof"), "text": c["text"], "design_ref": c["ref"]},
        "level_note": c["note"],
        "technique": "contract-based deductive verification: weakest-precondition VCs generated from go/ssa of the real functions, contracts in guarded comment files, discharged by z3/cvc5",
    })
na = [{"property_id": k, "reason": v} for k, v in sorted(not_applicable.items())]
for p in pending:
    if p not in claims:
        na.append({"property_id": p, "reason": "not claimed in this revision: its functions are not yet under contract (work in progress, see DESIGN.md §6)"})
commits = subprocess.run(["git", "-C", "/repo", "log", "--format=%H %s"], capture_output=True, text=True).stdout.strip().split("\n")
hooks = [l.split()[0] for l in commits if " verif:" in " " + l]
m = {
 "version": 1,
 "setup_cmd": "sh /verif/setup.sh",
 "hooks": {
  "guard": "verif",
  "enable": "contracts are comment-only files /repo/<pkg>/zz_verif_contracts.go under '//go:build verif'; govc loads /repo with -tags verif and reads their //@ lines",
  "baseline_off_cmd": "cd /repo && GOFLAGS=-mod=mod go test -json -vet=off -count=1 -timeout 25m ./...",
  "source_commits": hooks,
  "add_only": True,
 },
 "engines": [{"name": "govc", "path": "/verif/govc", "serves_properties": sorted(claims),
   "kind_free_text": "contract-based deductive verifier for Go written for this task: VCs from go/ssa of /repo's working tree, contracts as //@ comments in guarded files, z3 5.1 / cvc5 / z3 4.8 portfolio"}],
 "checks": checks,
 "not_applicable": sorted(na, key=lambda x: x["property_id"]),
 "notes": "Design and per-property scope: DESIGN.md. Known findings: known_findings.txt. Seeded changes: seeded/.",
}
json.dump(m, open("/verif/MANIFEST.json", "w"), indent=1)
print("claims:", sorted(claims))
